package vnet

import (
	"fmt"
	"math/rand"
	"time"

	sdk "github.com/cosmos/cosmos-sdk/types"

	clienttypes "github.com/bianjieai/tibc-go/modules/tibc/core/02-client/types"
	packettypes "github.com/bianjieai/tibc-go/modules/tibc/core/04-packet/types"
	commitmenttypes "github.com/bianjieai/tibc-go/modules/tibc/core/23-commitment/types"
	host "github.com/bianjieai/tibc-go/modules/tibc/core/24-host"
	routingtypes "github.com/bianjieai/tibc-go/modules/tibc/core/26-routing/types"
	ibctm "github.com/bianjieai/tibc-go/modules/tibc/light-clients/07-tendermint/types"
)

var StartTime = time.Date(2021, 3, 4, 5, 6, 7, 0, time.UTC)

// Network is a set of chains sharing one virtual clock.
type Network struct {
	KeySeed int64
	Rng     *rand.Rand
	Chains  []*Chain
	ByName  map[string]*Chain
	Now     time.Time
	Step    time.Duration
	Steps   int
	// Observers are called after every block with its result.
	Observers []func(*Result)
	// ClientCfg, if set, replaces DefaultClientCfg in Connect.
	ClientCfg *ClientCfg
}

// Config of a TM client created by Connect.
type ClientCfg struct {
	TrustingPeriod, Unbonding, Drift time.Duration
	TrustLevel                       ibctm.Fraction
	TimeDelay                        uint64
}

var DefaultClientCfg = ClientCfg{
	TrustingPeriod: 14 * 24 * time.Hour, Unbonding: 21 * 24 * time.Hour, Drift: 10 * time.Second,
	TrustLevel: ibctm.DefaultTrustLevel,
}

// New builds a network; keySeed fixes all keys (and therefore addresses and tx bytes).
func New(keySeed int64, rng *rand.Rand, names []string, nVals, nAccs int) *Network {
	n := &Network{KeySeed: keySeed, Rng: rng, ByName: map[string]*Chain{}, Now: StartTime, Step: 5 * time.Second}
	for _, nm := range names {
		c := NewChain(n, nm, nVals, nAccs)
		n.Chains = append(n.Chains, c)
		n.ByName[nm] = c
	}
	return n
}

func (n *Network) tick() { n.Now = n.Now.Add(n.Step).UTC() }

// Advance moves the clock.
func (n *Network) Advance(d time.Duration) { n.Now = n.Now.Add(d).UTC() }

func (n *Network) emit(r *Result) *Result {
	for _, o := range n.Observers {
		o(r)
	}
	return r
}

// Emit lets drivers publish a result they obtained through Chain methods.
func (n *Network) Emit(r *Result) *Result { return n.emit(r) }

// NewTMClientState builds the client state / consensus state of `of` at its latest height.
func NewTMClientState(of *Chain, cfg ClientCfg) (*ibctm.ClientState, *ibctm.ConsensusState) {
	hdr := of.LatestHeader()
	h := hdr.GetHeight().(clienttypes.Height)
	cs := ibctm.NewClientState(of.Name, cfg.TrustLevel, cfg.TrustingPeriod, cfg.Unbonding, cfg.Drift, h,
		commitmenttypes.GetSDKSpecs(), commitmenttypes.MerklePrefix{KeyPrefix: []byte(host.StoreKey)}, cfg.TimeDelay)
	return cs, hdr.ConsensusState()
}

// CreateClient creates, by governance execution, a TM client of `of` on `on`
// and registers on's relayer account for it.
func (n *Network) CreateClient(on, of *Chain, cfg ClientCfg) error {
	cs, cons := NewTMClientState(of, cfg)
	msg, err := clienttypes.NewMsgCreateClient(of.Name, cs, cons, on.GovAddr)
	if err != nil {
		return err
	}
	msg.ChainName, msg.Title, msg.Description = of.Name, "t", "d"
	if r := n.emit(on.GovExec(msg)); !r.OK() {
		return fmt.Errorf("create client: %s", r.Log)
	}
	reg := &clienttypes.MsgRegisterRelayer{Title: "t", Description: "d", ChainName: of.Name, Relayers: []string{on.Relayer.Addr.String()}, Authority: on.GovAddr}
	if r := n.emit(on.GovExec(reg)); !r.OK() {
		return fmt.Errorf("register relayer: %s", r.Log)
	}
	return nil
}

// Connect creates clients in both directions.
func (n *Network) Connect(a, b *Chain) {
	cfg := DefaultClientCfg
	if n.ClientCfg != nil {
		cfg = *n.ClientCfg
	}
	must(n.CreateClient(a, b, cfg))
	must(n.CreateClient(b, a, cfg))
}

// SetRules sets routing rules on c by governance execution.
func (n *Network) SetRules(c *Chain, rules []string) *Result {
	return n.emit(c.GovExec(&routingtypes.MsgSetRoutingRules{Title: "t", Description: "d", Rules: rules, Authority: c.GovAddr}))
}

// ClientHeight returns the latest height of on's client of `of` (0 if none).
func ClientHeight(on *Chain, of string) clienttypes.Height {
	cs, ok := on.App.TIBCKeeper.ClientKeeper.GetClientState(on.Ctx(), of)
	if !ok {
		return clienttypes.Height{}
	}
	return cs.GetLatestHeight().(clienttypes.Height)
}

// UpdateHeader builds the MsgUpdateClient header that takes on's client of `of`
// from its latest height to of's header at `height` (0 = latest).
func UpdateHeader(on, of *Chain, height int64) *ibctm.Header {
	if height == 0 {
		height = of.Height()
	}
	src := of.Headers[height]
	cp := *src
	cp.TrustedHeight = ClientHeight(on, of.Name)
	tv, err := of.Vals.ToProto()
	must(err)
	cp.TrustedValidators = tv
	return &cp
}

// UpdateClient commits an empty block on `of` (so that its latest state is
// provable) and updates on's client of `of` to that height.
func (n *Network) UpdateClient(on, of *Chain) *Result {
	n.emit(of.Commit(nil))
	return n.UpdateClientTo(on, of, 0)
}

// UpdateClientTo updates without producing a block on `of`.
func (n *Network) UpdateClientTo(on, of *Chain, height int64) *Result {
	msg, err := clienttypes.NewMsgUpdateClient(of.Name, UpdateHeader(on, of, height), on.Relayer.Addr)
	must(err)
	return n.emit(on.Deliver(on.Relayer, msg))
}

// ProofAt returns (proof, proofHeight) for a tibc-store key on `of` provable at header height h.
func ProofAt(of *Chain, key []byte, h int64) ([]byte, clienttypes.Height) {
	p, ph, err := of.QueryProof(key, h)
	if err != nil {
		return nil, clienttypes.NewHeight(clienttypes.ParseChainID(of.Name), uint64(h))
	}
	return p, ph
}

// RecvMsg builds a MsgRecvPacket for `on`, proven from `from` at on's client height.
func RecvMsg(on, from *Chain, p packettypes.Packet, signer sdk.AccAddress) *packettypes.MsgRecvPacket {
	h := ClientHeight(on, from.Name)
	proof, ph := ProofAt(from, host.PacketCommitmentKey(p.SourceChain, p.DestinationChain, p.Sequence), int64(h.RevisionHeight))
	return packettypes.NewMsgRecvPacket(p, proof, ph, signer)
}

// AckMsg builds a MsgAcknowledgement for `on`, proven from `from`.
func AckMsg(on, from *Chain, p packettypes.Packet, ack []byte, signer sdk.AccAddress) *packettypes.MsgAcknowledgement {
	h := ClientHeight(on, from.Name)
	proof, ph := ProofAt(from, host.PacketAcknowledgementKey(p.SourceChain, p.DestinationChain, p.Sequence), int64(h.RevisionHeight))
	return packettypes.NewMsgAcknowledgement(p, ack, proof, ph, signer)
}

// RecvCleanMsg builds a MsgRecvCleanPacket for `on`, proven from `from`.
func RecvCleanMsg(on, from *Chain, cp packettypes.CleanPacket, signer sdk.AccAddress) *packettypes.MsgRecvCleanPacket {
	h := ClientHeight(on, from.Name)
	proof, ph := ProofAt(from, host.CleanPacketCommitmentKey(cp.SourceChain, cp.DestinationChain), int64(h.RevisionHeight))
	return packettypes.NewMsgRecvCleanPacket(cp, proof, ph, signer)
}

// Tx delivers msgs signed by acc on c and publishes the result.
func (n *Network) Tx(c *Chain, acc *Account, msgs ...sdk.Msg) *Result {
	return n.emit(c.Deliver(acc, msgs...))
}

// ModuleSend makes the mock application module of c send a raw packet
// (PacketKeeper.SendPacket inside a block, as an app module would).
func (n *Network) ModuleSend(c *Chain, p packettypes.Packet) *Result {
	return n.emit(c.Exec(func(ctx sdk.Context) error {
		return c.App.TIBCKeeper.PacketKeeper.SendPacket(ctx, &p)
	}))
}
