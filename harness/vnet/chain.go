// Package vnet is the system under observation: a network of real
// simapp.SimApp chains (memdb) with deterministic validators and accounts, a
// virtual clock and Tendermint light clients between them. Every state change
// goes through BaseApp (FinalizeBlock + Commit); the KV diff of the TIBC and
// token stores is taken at the block boundary.
package vnet

import (
	"bytes"
	"context"
	"encoding/json"
	"fmt"
	"sort"

	"cosmossdk.io/log"
	"time"

	sdkmath "cosmossdk.io/math"
	storetypes "cosmossdk.io/store/types"
	abci "github.com/cometbft/cometbft/abci/types"
	"github.com/cometbft/cometbft/crypto"
	"github.com/cometbft/cometbft/crypto/tmhash"
	cmtproto "github.com/cometbft/cometbft/proto/tendermint/types"
	cmtprotoversion "github.com/cometbft/cometbft/proto/tendermint/version"
	cmttypes "github.com/cometbft/cometbft/types"
	cmtversion "github.com/cometbft/cometbft/version"
	dbm "github.com/cosmos/cosmos-db"
	"github.com/cosmos/cosmos-sdk/baseapp"
	codectypes "github.com/cosmos/cosmos-sdk/codec/types"
	cryptocodec "github.com/cosmos/cosmos-sdk/crypto/codec"
	"github.com/cosmos/cosmos-sdk/crypto/keys/ed25519"
	"github.com/cosmos/cosmos-sdk/crypto/keys/secp256k1"
	cryptotypes "github.com/cosmos/cosmos-sdk/crypto/types"
	sdk "github.com/cosmos/cosmos-sdk/types"
	"github.com/cosmos/cosmos-sdk/types/tx/signing"
	authsign "github.com/cosmos/cosmos-sdk/x/auth/signing"
	authtypes "github.com/cosmos/cosmos-sdk/x/auth/types"
	banktypes "github.com/cosmos/cosmos-sdk/x/bank/types"
	govtypes "github.com/cosmos/cosmos-sdk/x/gov/types"
	stakingtypes "github.com/cosmos/cosmos-sdk/x/staking/types"

	clienttypes "github.com/bianjieai/tibc-go/modules/tibc/core/02-client/types"
	commitmenttypes "github.com/bianjieai/tibc-go/modules/tibc/core/23-commitment/types"
	host "github.com/bianjieai/tibc-go/modules/tibc/core/24-host"
	coretypes "github.com/bianjieai/tibc-go/modules/tibc/core/types"
	ibctm "github.com/bianjieai/tibc-go/modules/tibc/light-clients/07-tendermint/types"
	"github.com/bianjieai/tibc-go/simapp"
)

// Stores whose diff is recorded for every block.
var WatchedStores = []string{"tibc", "NFT", "nft", "mt"}

// pv is a deterministic PrivValidator.
type pv struct{ k cryptotypes.PrivKey }

func (p pv) GetPubKey() (crypto.PubKey, error) { return cryptocodec.ToTmPubKeyInterface(p.k.PubKey()) }
func (p pv) SignVote(chainID string, vote *cmtproto.Vote) error {
	sig, err := p.k.Sign(cmttypes.VoteSignBytes(chainID, vote))
	vote.Signature = sig
	return err
}
func (p pv) SignProposal(chainID string, pr *cmtproto.Proposal) error {
	sig, err := p.k.Sign(cmttypes.ProposalSignBytes(chainID, pr))
	pr.Signature = sig
	return err
}

// Account is a deterministic user / relayer account.
type Account struct {
	Name string
	Priv cryptotypes.PrivKey
	Addr sdk.AccAddress
	Num  uint64
	Seq  uint64
}

func (a *Account) String() string { return a.Addr.String() }

// KV is one key/value pair of a store dump.
type KV struct {
	Store string `json:"store"`
	Key   string `json:"key"` // raw bytes as Go string
	Old   []byte `json:"old,omitempty"`
	New   []byte `json:"new,omitempty"`
}

func (kv KV) Created() bool { return kv.Old == nil && kv.New != nil }
func (kv KV) Deleted() bool { return kv.Old != nil && kv.New == nil }

// Dump is store -> key -> value.
type Dump map[string]map[string][]byte

// Result is what one step (one block) produced.
type Result struct {
	Chain   string
	Height  int64
	Time    time.Time
	Code    uint32
	Space   string
	Log     string
	GasUsed int64
	Events  []abci.Event
	Diff    []KV
	AppHash []byte
	TxBytes []byte
	// Raw holds every tx result of the block (multi-tx blocks).
	Raw []*abci.ExecTxResult
}

func (r *Result) OK() bool { return r.Code == 0 }

// Chain is one simapp chain of the network.
type Chain struct {
	Net      *Network
	Name     string
	App      *simapp.SimApp
	Vals     *cmttypes.ValidatorSet
	Signers  map[string]cmttypes.PrivValidator
	Accounts []*Account
	Relayer  *Account // Accounts[0]

	// next block
	NextHeight int64
	// app hash after the last commit (goes into the next header)
	LastAppHash []byte
	// signed headers by height
	Headers map[int64]*ibctm.Header
	last    Dump
	GovAddr string
	Logger  *ChainLogger
	// OnBlock, if set, sees every committed block (inputs and results).
	OnBlock func(txs [][]byte, res *abci.ResponseFinalizeBlock, r *Result)

	// DB is the node's database. With RestartEvery = n > 0, every n-th block that carries transactions is also
	// executed by a "restarted node": a fresh application opened on a copy of the database as committed so far
	// (nothing cached in memory). OnRestart is told the outcome: diff == "" when the restarted node produced the
	// same results and app hash.
	DB           dbm.DB
	RestartEvery int
	OnRestart    func(height int64, diff string)
	txBlocks     int
}

// restartedApp opens a fresh application on a copy of the committed database.
func (c *Chain) restartedApp() *simapp.SimApp {
	cp := dbm.NewMemDB()
	it, err := c.DB.Iterator(nil, nil)
	must(err)
	for ; it.Valid(); it.Next() {
		must(cp.Set(append([]byte{}, it.Key()...), append([]byte{}, it.Value()...)))
	}
	must(it.Close())
	return simapp.NewSimApp(log.NewNopLogger(), cp, nil, true, simapp.EmptyAppOptions{}, baseapp.SetChainID(c.Name))
}

// compareRestarted runs the block on the restarted node and describes the first difference.
func (c *Chain) compareRestarted(rep *simapp.SimApp, req *abci.RequestFinalizeBlock, res *abci.ResponseFinalizeBlock) string {
	res2, err := rep.FinalizeBlock(req)
	if err != nil {
		return "restarted node failed the block: " + err.Error()
	}
	if _, err := rep.Commit(); err != nil {
		return "restarted node failed to commit: " + err.Error()
	}
	defer rep.Close()
	if len(res.TxResults) != len(res2.TxResults) {
		return fmt.Sprintf("%d vs %d tx results", len(res.TxResults), len(res2.TxResults))
	}
	for i := range res.TxResults {
		a, _ := res.TxResults[i].Marshal()
		b, _ := res2.TxResults[i].Marshal()
		if !bytes.Equal(a, b) {
			x, y := res.TxResults[i], res2.TxResults[i]
			return fmt.Sprintf("tx %d: running node code=%d gas=%d log=%q events=%d / restarted node code=%d gas=%d log=%q events=%d",
				i, x.Code, x.GasUsed, x.Log, len(x.Events), y.Code, y.GasUsed, y.Log, len(y.Events))
		}
	}
	if !bytes.Equal(c.App.LastCommitID().Hash, rep.LastCommitID().Hash) {
		return fmt.Sprintf("app hash %x (running node) vs %x (restarted node)", c.App.LastCommitID().Hash, rep.LastCommitID().Hash)
	}
	return ""
}

func detSecp(seed int64, tag string) cryptotypes.PrivKey {
	return secp256k1.GenPrivKeyFromSecret([]byte(fmt.Sprintf("verif/%d/%s", seed, tag)))
}
func detEd(seed int64, tag string) cryptotypes.PrivKey {
	return ed25519.GenPrivKeyFromSecret([]byte(fmt.Sprintf("verif/%d/%s", seed, tag)))
}

// NewChain builds and initialises a chain; block 1 is committed.
func NewChain(net *Network, name string, nVals, nAccs int) *Chain {
	c := &Chain{Net: net, Name: name, Headers: map[int64]*ibctm.Header{}, Signers: map[string]cmttypes.PrivValidator{}}
	var vals []*cmttypes.Validator
	for i := 0; i < nVals; i++ {
		p := pv{detEd(net.KeySeed, fmt.Sprintf("%s/val/%d", name, i))}
		pk, _ := p.GetPubKey()
		vals = append(vals, cmttypes.NewValidator(pk, 1))
		c.Signers[pk.Address().String()] = p
	}
	c.Vals = cmttypes.NewValidatorSet(vals)

	var genAccs []authtypes.GenesisAccount
	var bals []banktypes.Balance
	amount, _ := sdkmath.NewIntFromString("10000000000000000000")
	for i := 0; i < nAccs; i++ {
		k := detSecp(net.KeySeed, fmt.Sprintf("%s/acc/%d", name, i))
		acc := authtypes.NewBaseAccount(k.PubKey().Address().Bytes(), k.PubKey(), uint64(i), 0)
		genAccs = append(genAccs, acc)
		bals = append(bals, banktypes.Balance{Address: acc.GetAddress().String(), Coins: sdk.NewCoins(sdk.NewCoin(sdk.DefaultBondDenom, amount))})
		c.Accounts = append(c.Accounts, &Account{Name: fmt.Sprintf("%s/u%d", name, i), Priv: k, Addr: acc.GetAddress(), Num: uint64(i)})
	}
	c.Relayer = c.Accounts[0]

	db := dbm.NewMemDB()
	c.Logger = &ChainLogger{Chain: c}
	app := simapp.NewSimApp(c.Logger, db, nil, true, simapp.EmptyAppOptions{}, baseapp.SetChainID(name))
	gen := simapp.NewDefaultGenesisState(app.AppCodec())
	gen[authtypes.ModuleName] = app.AppCodec().MustMarshalJSON(authtypes.NewGenesisState(authtypes.DefaultParams(), genAccs))

	bondAmt := sdk.TokensFromConsensusPower(1, sdk.DefaultPowerReduction)
	var svals []stakingtypes.Validator
	var dels []stakingtypes.Delegation
	for _, val := range c.Vals.Validators {
		pk, err := cryptocodec.FromTmPubKeyInterface(val.PubKey)
		must(err)
		pkAny, err := codectypes.NewAnyWithValue(pk)
		must(err)
		svals = append(svals, stakingtypes.Validator{
			OperatorAddress: sdk.ValAddress(val.Address).String(), ConsensusPubkey: pkAny,
			Status: stakingtypes.Bonded, Tokens: bondAmt, DelegatorShares: sdkmath.LegacyOneDec(),
			UnbondingTime:     time.Unix(0, 0).UTC(),
			Commission:        stakingtypes.NewCommission(sdkmath.LegacyZeroDec(), sdkmath.LegacyZeroDec(), sdkmath.LegacyZeroDec()),
			MinSelfDelegation: sdkmath.ZeroInt(),
		})
		dels = append(dels, stakingtypes.NewDelegation(genAccs[0].GetAddress().String(), sdk.ValAddress(val.Address.Bytes()).String(), sdkmath.LegacyOneDec()))
	}
	var sg stakingtypes.GenesisState
	app.AppCodec().MustUnmarshalJSON(gen[stakingtypes.ModuleName], &sg)
	bals = append(bals, banktypes.Balance{
		Address: authtypes.NewModuleAddress(stakingtypes.BondedPoolName).String(),
		Coins:   sdk.Coins{sdk.NewCoin(sg.Params.BondDenom, bondAmt.Mul(sdkmath.NewInt(int64(len(vals)))))},
	})
	sg = *stakingtypes.NewGenesisState(sg.Params, svals, dels)
	gen[stakingtypes.ModuleName] = app.AppCodec().MustMarshalJSON(&sg)
	gen[banktypes.ModuleName] = app.AppCodec().MustMarshalJSON(banktypes.NewGenesisState(
		banktypes.DefaultGenesisState().Params, bals, sdk.NewCoins(), []banktypes.Metadata{}, []banktypes.SendEnabled{}))

	// native chain name
	var tg coretypes.GenesisState
	app.AppCodec().MustUnmarshalJSON(gen[host.ModuleName], &tg)
	tg.ClientGenesis.NativeChainName = name
	gen[host.ModuleName] = app.AppCodec().MustMarshalJSON(&tg)

	stateBytes, err := json.MarshalIndent(gen, "", " ")
	must(err)
	_, err = app.InitChain(&abci.RequestInitChain{
		ChainId: name, Validators: []abci.ValidatorUpdate{}, ConsensusParams: simapp.DefaultConsensusParams,
		AppStateBytes: stateBytes, Time: net.Now,
	})
	must(err)
	c.App = app
	c.DB = db
	c.NextHeight = 1
	c.GovAddr = authtypes.NewModuleAddress(govtypes.ModuleName).String()
	c.last = Dump{}
	for _, s := range WatchedStores {
		c.last[s] = map[string][]byte{}
	}
	c.Commit(nil)
	return c
}

// AdoptApp wraps an already initialised app (used by the genesis round-trip
// twin): the app must have been InitChain'ed at initialHeight.
func AdoptApp(net *Network, tmpl *Chain, app *simapp.SimApp, nextHeight int64) *Chain {
	c := &Chain{Net: net, Name: tmpl.Name, App: app, Vals: tmpl.Vals, Signers: tmpl.Signers,
		Headers: map[int64]*ibctm.Header{}, NextHeight: nextHeight, GovAddr: tmpl.GovAddr}
	for _, a := range tmpl.Accounts {
		cp := *a
		c.Accounts = append(c.Accounts, &cp)
	}
	c.Relayer = c.Accounts[0]
	c.LastAppHash = app.LastCommitID().Hash
	c.last = c.DumpStores()
	return c
}

func must(err error) {
	if err != nil {
		panic(err)
	}
}

// DumpStores reads the committed (plus pending uncached) content of the watched stores.
func (c *Chain) DumpStores() Dump {
	d := Dump{}
	cms := c.App.CommitMultiStore()
	for _, name := range WatchedStores {
		m := map[string][]byte{}
		st := cms.GetKVStore(c.App.GetKey(name))
		it := st.Iterator(nil, nil)
		for ; it.Valid(); it.Next() {
			v := append([]byte{}, it.Value()...)
			m[string(it.Key())] = v
		}
		it.Close()
		d[name] = m
	}
	return d
}

func diffDumps(a, b Dump) []KV {
	var out []KV
	for _, s := range WatchedStores {
		am, bm := a[s], b[s]
		keys := map[string]struct{}{}
		for k := range am {
			keys[k] = struct{}{}
		}
		for k := range bm {
			keys[k] = struct{}{}
		}
		ks := make([]string, 0, len(keys))
		for k := range keys {
			ks = append(ks, k)
		}
		sort.Strings(ks)
		for _, k := range ks {
			av, aok := am[k]
			bv, bok := bm[k]
			if aok && bok && string(av) == string(bv) {
				continue
			}
			kv := KV{Store: s, Key: k}
			if aok {
				kv.Old = av
				if kv.Old == nil {
					kv.Old = []byte{}
				}
			}
			if bok {
				kv.New = bv
				if kv.New == nil {
					kv.New = []byte{}
				}
			}
			out = append(out, kv)
		}
	}
	return out
}

// Commit produces one block with the given txs at the network's current time
// and advances the clock.
func (c *Chain) Commit(txs [][]byte) *Result {
	h := c.NextHeight
	t := c.Net.Now
	var rep *simapp.SimApp
	if c.RestartEvery > 0 && len(txs) > 0 && c.DB != nil {
		if c.txBlocks++; c.txBlocks%c.RestartEvery == 0 {
			rep = c.restartedApp()
		}
	}
	req := &abci.RequestFinalizeBlock{Height: h, Time: t, NextValidatorsHash: c.Vals.Hash(), Txs: txs}
	res, err := c.App.FinalizeBlock(req)
	must(err)
	if len(res.ValidatorUpdates) != 0 && h > 1 {
		panic("vnet: validator set changed")
	}
	_, err = c.App.Commit()
	must(err)
	if rep != nil {
		d := c.compareRestarted(rep, req, res)
		if c.OnRestart != nil {
			c.OnRestart(h, d)
		}
	}
	// header for height h carries the app hash after h-1
	c.Headers[h] = c.makeHeader(h, t, c.LastAppHash)
	c.LastAppHash = c.App.LastCommitID().Hash
	c.NextHeight = h + 1
	now := c.DumpStores()
	r := &Result{Chain: c.Name, Height: h, Time: t, Diff: diffDumps(c.last, now), AppHash: c.LastAppHash, Raw: res.TxResults}
	c.last = now
	if len(res.TxResults) >= 1 {
		x := res.TxResults[len(res.TxResults)-1]
		r.Code, r.Space, r.Log, r.GasUsed, r.Events = x.Code, x.Codespace, x.Log, x.GasUsed, x.Events
		r.TxBytes = txs[len(txs)-1]
	}
	if c.OnBlock != nil {
		c.OnBlock(txs, res, r)
	}
	c.Net.tick()
	c.Net.Steps++
	return r
}

func (c *Chain) makeHeader(height int64, ts time.Time, appHash []byte) *ibctm.Header {
	return MakeTMHeader(c.Name, height, ts, appHash, c.Vals, c.Vals, c.Signers, nil)
}

// MakeTMHeader builds and signs a Tendermint header. signerSubset==nil means
// every validator signs; otherwise only validators whose address string is in
// the subset sign (others are absent).
func MakeTMHeader(chainID string, height int64, ts time.Time, appHash []byte,
	vals, nextVals *cmttypes.ValidatorSet, signers map[string]cmttypes.PrivValidator, signerSubset map[string]bool) *ibctm.Header {
	tmHeader := cmttypes.Header{
		Version: cmtprotoversion.Consensus{Block: cmtversion.BlockProtocol, App: 2},
		ChainID: chainID, Height: height, Time: ts,
		LastBlockID:        makeBlockID(make([]byte, tmhash.Size), 10_000, make([]byte, tmhash.Size)),
		LastCommitHash:     tmhash.Sum([]byte("last_commit")),
		DataHash:           tmhash.Sum([]byte("data_hash")),
		ValidatorsHash:     vals.Hash(),
		NextValidatorsHash: nextVals.Hash(),
		ConsensusHash:      tmhash.Sum([]byte("consensus_hash")),
		AppHash:            appHash,
		LastResultsHash:    tmhash.Sum([]byte("last_results_hash")),
		EvidenceHash:       tmhash.Sum([]byte("evidence_hash")),
		ProposerAddress:    vals.Validators[0].Address,
	}
	blockID := makeBlockID(tmHeader.Hash(), 3, tmhash.Sum([]byte("part_set")))
	commit := &cmttypes.Commit{Height: height, Round: 1, BlockID: blockID}
	for i, v := range vals.Validators {
		addr := v.Address.String()
		if signerSubset != nil && !signerSubset[addr] {
			commit.Signatures = append(commit.Signatures, cmttypes.NewCommitSigAbsent())
			continue
		}
		vote := &cmttypes.Vote{
			Type: cmtproto.PrecommitType, Height: height, Round: 1, BlockID: blockID,
			Timestamp: ts, ValidatorAddress: v.Address, ValidatorIndex: int32(i),
		}
		vp := vote.ToProto()
		must(signers[addr].SignVote(chainID, vp))
		commit.Signatures = append(commit.Signatures, cmttypes.CommitSig{
			BlockIDFlag: cmttypes.BlockIDFlagCommit, ValidatorAddress: v.Address, Timestamp: ts, Signature: vp.Signature,
		})
	}
	valSet, err := vals.ToProto()
	must(err)
	return &ibctm.Header{
		SignedHeader: &cmtproto.SignedHeader{Header: tmHeader.ToProto(), Commit: commit.ToProto()},
		ValidatorSet: valSet,
	}
}

func makeBlockID(hash []byte, n uint32, psh []byte) cmttypes.BlockID {
	return cmttypes.BlockID{Hash: hash, PartSetHeader: cmttypes.PartSetHeader{Total: n, Hash: psh}}
}

// Height of the last committed block.
func (c *Chain) Height() int64 { return c.NextHeight - 1 }

// LatestHeader is the signed header of the last committed block.
func (c *Chain) LatestHeader() *ibctm.Header { return c.Headers[c.Height()] }

// Ctx returns an uncached context on the committed state with the next block's header.
func (c *Chain) Ctx() sdk.Context {
	return c.App.BaseApp.NewUncachedContext(false, cmtproto.Header{
		ChainID: c.Name, Height: c.NextHeight, Time: c.Net.Now, AppHash: c.LastAppHash,
	})
}

// BuildTx signs msgs by acc (fixed memo, zero fee) without touching acc.Seq.
func (c *Chain) BuildTx(acc *Account, gas uint64, msgs ...sdk.Msg) ([]byte, error) {
	txCfg := c.App.GetTxConfig()
	signMode, err := authsign.APISignModeToInternal(txCfg.SignModeHandler().DefaultMode())
	if err != nil {
		return nil, err
	}
	sig := signing.SignatureV2{PubKey: acc.Priv.PubKey(), Data: &signing.SingleSignatureData{SignMode: signMode}, Sequence: acc.Seq}
	b := txCfg.NewTxBuilder()
	if err := b.SetMsgs(msgs...); err != nil {
		return nil, err
	}
	if err := b.SetSignatures(sig); err != nil {
		return nil, err
	}
	b.SetMemo("verif")
	b.SetFeeAmount(sdk.Coins{sdk.NewInt64Coin(sdk.DefaultBondDenom, 0)})
	b.SetGasLimit(gas)
	sd := authsign.SignerData{Address: acc.Addr.String(), ChainID: c.Name, AccountNumber: acc.Num, Sequence: acc.Seq, PubKey: acc.Priv.PubKey()}
	sb, err := authsign.GetSignBytesAdapter(context.Background(), txCfg.SignModeHandler(), signMode, sd, b.GetTx())
	if err != nil {
		return nil, err
	}
	s, err := acc.Priv.Sign(sb)
	if err != nil {
		return nil, err
	}
	sig.Data.(*signing.SingleSignatureData).Signature = s
	if err := b.SetSignatures(sig); err != nil {
		return nil, err
	}
	return txCfg.TxEncoder()(b.GetTx())
}

const DefaultGas = 10_000_000

// Deliver signs msgs by acc and delivers them as the only tx of a new block.
func (c *Chain) Deliver(acc *Account, msgs ...sdk.Msg) *Result {
	return c.DeliverGas(acc, DefaultGas, msgs...)
}

// DeliverGas is Deliver with an explicit gas limit.
func (c *Chain) DeliverGas(acc *Account, gas uint64, msgs ...sdk.Msg) *Result {
	bz, err := c.BuildTx(acc, gas, msgs...)
	if err != nil {
		// the message cannot even be encoded/signed: nothing reaches the chain
		return &Result{Chain: c.Name, Height: c.NextHeight, Time: c.Net.Now, Code: 1, Space: "verif-build", Log: err.Error()}
	}
	r := c.Commit([][]byte{bz})
	// account sequence increments whenever the ante handler passed
	c.syncSeq(acc)
	return r
}

// DeliverRaw delivers pre-built tx bytes (replay / determinism).
func (c *Chain) DeliverRaw(txs ...[]byte) *Result {
	r := c.Commit(txs)
	for _, a := range c.Accounts {
		c.syncSeq(a)
	}
	return r
}

func (c *Chain) syncSeq(acc *Account) {
	a := c.App.AccountKeeper.GetAccount(c.Ctx(), acc.Addr)
	if a != nil {
		acc.Seq = a.GetSequence()
	}
}

// Exec runs fn against a branched context on top of committed state, the way
// a module (or the gov module executing a passed proposal) would act inside a
// block; on success the writes are kept and an otherwise empty block commits
// them. The returned Result carries the events fn emitted.
func (c *Chain) Exec(fn func(ctx sdk.Context) error) *Result {
	ctx := c.Ctx().WithEventManager(sdk.NewEventManager())
	cctx, write := ctx.CacheContext()
	cctx = cctx.WithEventManager(sdk.NewEventManager())
	err := fn(cctx)
	if err == nil {
		write()
	}
	r := c.Commit(nil)
	if err != nil {
		r.Code, r.Space, r.Log = 1, "verif-exec", err.Error()
	} else {
		r.Events = cctx.EventManager().ABCIEvents()
	}
	return r
}

// GovExec executes msg through the message service router, as the gov module does for a passed proposal.
func (c *Chain) GovExec(msg sdk.Msg) *Result {
	return c.Exec(func(ctx sdk.Context) error {
		h := c.App.MsgServiceRouter().Handler(msg)
		if h == nil {
			return fmt.Errorf("no handler for %T", msg)
		}
		_, err := h(ctx, msg)
		return err
	})
}

// QueryProof returns the marshalled merkle proof of key in the tibc store as of
// block `height-1`'s state... precisely: IAVL version height-1, which verifies
// against the header of `height`.
func (c *Chain) QueryProof(key []byte, height int64) ([]byte, clienttypes.Height, error) {
	res, err := c.App.Query(context.Background(), &abci.RequestQuery{
		Path: fmt.Sprintf("store/%s/key", host.StoreKey), Height: height - 1, Data: key, Prove: true,
	})
	if err != nil {
		return nil, clienttypes.Height{}, err
	}
	if res.ProofOps == nil {
		return nil, clienttypes.Height{}, fmt.Errorf("no proof: %s", res.Log)
	}
	mp, err := commitmenttypes.ConvertProofs(res.ProofOps)
	if err != nil {
		return nil, clienttypes.Height{}, err
	}
	bz, err := c.App.AppCodec().Marshal(&mp)
	if err != nil {
		return nil, clienttypes.Height{}, err
	}
	return bz, clienttypes.NewHeight(clienttypes.ParseChainID(c.Name), uint64(res.Height)+1), nil
}

// StateAt is the ground-truth lookup: value of key in store `name` at IAVL
// version `version` (no proofs, no light client involved).
func (c *Chain) StateAt(name string, version int64, key []byte) ([]byte, bool) {
	ms, err := c.App.CommitMultiStore().CacheMultiStoreWithVersion(version)
	if err != nil {
		return nil, false
	}
	v := ms.GetKVStore(c.App.GetKey(name)).Get(key)
	return v, v != nil
}

// AppHashAt is the real app hash after block `version`.
func (c *Chain) AppHashAt(version int64) []byte {
	h, ok := c.Headers[version+1]
	if !ok {
		if version == c.Height() {
			return c.LastAppHash
		}
		return nil
	}
	return h.Header.AppHash
}

// Get reads the current committed value.
func (c *Chain) Get(store string, key []byte) []byte {
	return c.App.CommitMultiStore().GetKVStore(c.App.GetKey(store)).Get(key)
}

var _ = storetypes.StoreKey(nil)
