package vnet

import "cosmossdk.io/log"

// ChainLogger is a no-op logger that carries a sink so that build-tag hooks,
// which only see an sdk.Context, can find the harness object of their chain.
type ChainLogger struct {
	Chain *Chain
	Sink  func(any)
}

var _ log.Logger = (*ChainLogger)(nil)

func (l *ChainLogger) Info(string, ...any)    {}
func (l *ChainLogger) Warn(string, ...any)    {}
func (l *ChainLogger) Error(string, ...any)   {}
func (l *ChainLogger) Debug(string, ...any)   {}
func (l *ChainLogger) With(...any) log.Logger { return l }
func (l *ChainLogger) Impl() any              { return l }
