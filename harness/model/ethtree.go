package model

import (
	"math/big"

	"github.com/ethereum/go-ethereum/common"
	"github.com/ethereum/go-ethereum/consensus/ethash"
	"github.com/ethereum/go-ethereum/consensus/misc"
	"github.com/ethereum/go-ethereum/core/types"
	"github.com/ethereum/go-ethereum/params"
)

// londonConfig: London (EIP-1559, EIP-3554 difficulty bomb delay) active from block 0, nothing later.
var londonConfig = func() *params.ChainConfig {
	z := big.NewInt(0)
	return &params.ChainConfig{ChainID: big.NewInt(1), HomesteadBlock: z, EIP150Block: z, EIP155Block: z, EIP158Block: z, ByzantiumBlock: z,
		ConstantinopleBlock: z, PetersburgBlock: z, IstanbulBlock: z, MuirGlacierBlock: z, BerlinBlock: z, LondonBlock: z}
}()

// ExpectedDifficulty is go-ethereum's own EIP-3554 calculator.
func ExpectedDifficulty(time uint64, parent *types.Header) *big.Int {
	return ethash.CalcDifficulty(londonConfig, time, parent)
}

// ExpectedBaseFee is go-ethereum's own EIP-1559 calculator.
func ExpectedBaseFee(parent *types.Header) *big.Int { return misc.CalcBaseFee(londonConfig, parent) }

// EthTree is the set of headers the client has accepted, as a tree.
type EthTree struct {
	Nodes  map[common.Hash]*types.Header
	Latest *types.Header
	Root   *types.Header
}

func NewEthTree(root *types.Header) *EthTree {
	return &EthTree{Nodes: map[common.Hash]*types.Header{root.Hash(): root}, Latest: root, Root: root}
}

// Accept is the reference rule (sealOK is supplied by the caller: the generator knows whether it mined / kept the recorded seal).
func (t *EthTree) Accept(h *types.Header, blockTimeUnix int64, sealOK bool) (bool, string) {
	if len(h.Extra) > 32 {
		return false, "extra-too-long"
	}
	if h.GasLimit > 0x7fffffffffffffff {
		return false, "gas-limit-cap"
	}
	if h.GasUsed > h.GasLimit {
		return false, "gas-used"
	}
	if h.Difficulty == nil || h.Difficulty.Sign() <= 0 {
		return false, "difficulty-not-positive"
	}
	if _, dup := t.Nodes[h.Hash()]; dup {
		return false, "duplicate"
	}
	p, ok := t.Nodes[h.ParentHash]
	if !ok || h.Number == nil || p.Number.Uint64()+1 != h.Number.Uint64() {
		return false, "unknown-parent"
	}
	if int64(h.Time) > blockTimeUnix+15 {
		return false, "future-time"
	}
	if h.Time <= p.Time {
		return false, "time-not-after-parent"
	}
	if err := misc.VerifyEip1559Header(londonConfig, p, h); err != nil {
		return false, "eip1559"
	}
	if ExpectedDifficulty(h.Time, p).Cmp(h.Difficulty) != 0 {
		return false, "difficulty"
	}
	if !sealOK {
		return false, "seal"
	}
	return true, ""
}

// Add records an accepted header as the new latest.
func (t *EthTree) Add(h *types.Header) {
	t.Nodes[h.Hash()] = h
	t.Latest = h
}

// Ancestor returns the header at `number` on the branch ending at the latest header (nil if above it or below the root).
func (t *EthTree) Ancestor(number uint64) *types.Header {
	cur := t.Latest
	for cur != nil && cur.Number.Uint64() > number {
		cur = t.Nodes[cur.ParentHash]
	}
	if cur == nil || cur.Number.Uint64() != number {
		return nil
	}
	return cur
}
