package model

import (
	"encoding/json"
	"math/big"

	"github.com/ethereum/go-ethereum/common"
	"github.com/ethereum/go-ethereum/core/rawdb"
	"github.com/ethereum/go-ethereum/crypto"
	"github.com/ethereum/go-ethereum/light"
	"github.com/ethereum/go-ethereum/rlp"
	"github.com/ethereum/go-ethereum/trie"
)

// EthWorld is an Ethereum-style state: an account trie with one contract
// account (plus bystanders) whose storage trie holds the TIBC mapping at slot
// index 104, the layout eth_getProof proves against.
type EthWorld struct {
	Contract common.Address
	Nonce    uint64
	Balance  *big.Int
	CodeHash common.Hash
	Storage  map[string][]byte // protocol path -> 32-byte word
	accounts *trie.Trie
	storage  *trie.Trie
	Root     common.Hash
}

type rlpAccount struct {
	Nonce    *big.Int
	Balance  *big.Int
	Storage  common.Hash
	Codehash common.Hash
}

// Slot is the storage slot of a protocol path: keccak(path || pad32(104)).
func Slot(path []byte) []byte {
	return crypto.Keccak256(path, common.LeftPadBytes(big.NewInt(104).Bytes(), 32))
}

// Word left-pads a value to the 32-byte storage word.
func Word(v []byte) []byte { return common.LeftPadBytes(v, 32) }

// NewEthWorld builds the tries for the given storage content.
func NewEthWorld(contract common.Address, storage map[string][]byte, bystanders int) *EthWorld {
	w := &EthWorld{Contract: contract, Nonce: 1, Balance: big.NewInt(12345), CodeHash: crypto.Keccak256Hash([]byte("code")), Storage: storage}
	w.storage, _ = trie.New(common.Hash{}, trie.NewDatabase(rawdb.NewMemoryDatabase()))
	for path, word := range storage {
		trimmed := common.TrimLeftZeroes(word)
		if len(trimmed) == 0 {
			continue
		}
		enc, _ := rlp.EncodeToBytes(trimmed)
		w.storage.Update(crypto.Keccak256(Slot([]byte(path))), enc)
	}
	w.accounts, _ = trie.New(common.Hash{}, trie.NewDatabase(rawdb.NewMemoryDatabase()))
	acc, _ := rlp.EncodeToBytes(&rlpAccount{Nonce: new(big.Int).SetUint64(w.Nonce), Balance: w.Balance, Storage: w.storage.Hash(), Codehash: w.CodeHash})
	w.accounts.Update(crypto.Keccak256(contract.Bytes()), acc)
	for i := 0; i < bystanders; i++ {
		a := crypto.Keccak256([]byte{byte(i), byte(i >> 8), 0x77})
		other, _ := rlp.EncodeToBytes(&rlpAccount{Nonce: big.NewInt(int64(i)), Balance: big.NewInt(int64(i) * 1000), Storage: crypto.Keccak256Hash(a), Codehash: crypto.Keccak256Hash(a, a)})
		w.accounts.Update(crypto.Keccak256(a[:20]), other)
	}
	w.Root = w.accounts.Hash()
	return w
}

// EthProof is the JSON shape the BSC / ETH clients unmarshal.
type EthProof struct {
	Address      string             `json:"address"`
	Balance      string             `json:"balance"`
	CodeHash     string             `json:"code_hash"`
	Nonce        string             `json:"nonce"`
	StorageHash  string             `json:"storage_hash"`
	AccountProof []string           `json:"account_proof"`
	StorageProof []*EthStorageProof `json:"storage_proof"`
}

type EthStorageProof struct {
	Key   string   `json:"key"`
	Value string   `json:"value"`
	Proof []string `json:"proof"`
}

func nodeHex(t *trie.Trie, key []byte) []string {
	var nl light.NodeList
	_ = t.Prove(key, 0, &nl)
	out := make([]string, 0, len(nl))
	for _, n := range nl {
		out = append(out, "0x"+common.Bytes2Hex(n))
	}
	return out
}

// Prove returns the eth_getProof-shaped proof of the storage slot of path.
func (w *EthWorld) Prove(path []byte) *EthProof {
	slot := Slot(path)
	val := "0x0"
	if word, ok := w.Storage[string(path)]; ok {
		val = "0x" + common.Bytes2Hex(common.TrimLeftZeroes(word))
	}
	return &EthProof{
		Address:      w.Contract.Hex(),
		Balance:      "0x" + w.Balance.Text(16),
		CodeHash:     w.CodeHash.Hex(),
		Nonce:        "0x" + new(big.Int).SetUint64(w.Nonce).Text(16),
		StorageHash:  w.storage.Hash().Hex(),
		AccountProof: nodeHex(w.accounts, crypto.Keccak256(w.Contract.Bytes())),
		StorageProof: []*EthStorageProof{{Key: "0x" + common.Bytes2Hex(slot), Value: val, Proof: nodeHex(w.storage, crypto.Keccak256(slot))}},
	}
}

// JSON encodes the proof.
func (p *EthProof) JSON() []byte { b, _ := json.Marshal(p); return b }

// Clone deep-copies a proof (for mutation).
func (p *EthProof) Clone() *EthProof {
	var q EthProof
	_ = json.Unmarshal(p.JSON(), &q)
	return &q
}
