package model

import (
	"math/big"
	"time"
)

// TMVal is a validator as the generator knows it.
type TMVal struct {
	Addr  string
	Power int64
}

// TMStored is a consensus state the client holds.
type TMStored struct {
	Time         time.Time
	NextValsHash string // identity of the committed-to next validator set
}

// TMKey is (revision number, revision height).
type TMKey struct{ Rev, Height uint64 }

// Less orders heights: by revision, then by height.
func (a TMKey) Less(b TMKey) bool { return a.Rev < b.Rev || (a.Rev == b.Rev && a.Height < b.Height) }

// TMClient is the abstract client.
type TMClient struct {
	ChainName      string // chain id without its revision suffix
	TrustNum       int64
	TrustDen       int64
	TrustingPeriod time.Duration
	MaxClockDrift  time.Duration
	Latest         TMKey
	Stored         map[TMKey]TMStored
}

// TMHeader is what the generator knows about a candidate header.
type TMHeader struct {
	ChainName       string
	Revision        uint64
	Height          uint64
	Time            time.Time
	Vals            []TMVal // the header's own validator set
	ValsHash        string  // identity of that set
	ClaimedValsHash string  // identity written into the header (== ValsHash unless corrupted)
	NextValsHash    string
	Signers         map[string]bool // addresses that really signed
	TrustedRevision uint64
	TrustedHeight   uint64
	TrustedVals     []TMVal // supplied trusted validators
	TrustedValsHash string
}

func gt(a, b, num, den int64) bool { // a/b > num/den  (b>0)
	l := new(big.Int).Mul(big.NewInt(a), big.NewInt(den))
	r := new(big.Int).Mul(big.NewInt(b), big.NewInt(num))
	return l.Cmp(r) > 0
}

// TMAccept is the reference acceptance rule; the string names the first failing clause.
func TMAccept(c *TMClient, h *TMHeader, now time.Time) (bool, string) {
	// client must be active: newest trusted state inside the trusting period
	latest, ok := c.Stored[c.Latest]
	if !ok {
		return false, "no-latest-state"
	}
	if !latest.Time.Add(c.TrustingPeriod).After(now) {
		return false, "client-expired"
	}
	ts, ok := c.Stored[TMKey{h.TrustedRevision, h.TrustedHeight}]
	if !ok {
		return false, "no-trusted-state"
	}
	if h.TrustedValsHash != ts.NextValsHash {
		return false, "trusted-validators-mismatch"
	}
	if h.Revision != h.TrustedRevision {
		return false, "revision"
	}
	if h.ChainName != c.ChainName {
		return false, "chain-id"
	}
	if h.Height <= h.TrustedHeight {
		return false, "height"
	}
	if !ts.Time.Add(c.TrustingPeriod).After(now) {
		return false, "trusted-state-expired"
	}
	if !h.Time.After(ts.Time) {
		return false, "time-not-after-trusted"
	}
	if !h.Time.Before(now.Add(c.MaxClockDrift)) {
		return false, "time-in-future"
	}
	if h.ClaimedValsHash != h.ValsHash {
		return false, "validator-set-hash"
	}
	var total, signed int64
	for _, v := range h.Vals {
		total += v.Power
		if h.Signers[v.Addr] {
			signed += v.Power
		}
	}
	if h.Height == h.TrustedHeight+1 {
		if h.ValsHash != ts.NextValsHash {
			return false, "adjacent-validators"
		}
	} else {
		var ttotal, tsigned int64
		for _, v := range h.TrustedVals {
			ttotal += v.Power
			if h.Signers[v.Addr] {
				tsigned += v.Power
			}
		}
		if !gt(tsigned, ttotal, c.TrustNum, c.TrustDen) {
			return false, "trust-level"
		}
	}
	if !gt(signed, total, 2, 3) {
		return false, "two-thirds"
	}
	return true, ""
}
