// Package model holds small executable reference models written from the
// property statements; they share no code with the implementation.
package model

import "strings"

const idAlphabet = "abcdefghijklmnopqrstuvwxyzABCDEFGHIJKLMNOPQRSTUVWXYZ0123456789._+-#[]<>"

// IDAlphabet is the permitted identifier alphabet.
func IDAlphabet() string { return idAlphabet }

func validField(f string) bool {
	if f == "*" {
		return true
	}
	if len(f) < 1 || len(f) > 64 {
		return false
	}
	for i := 0; i < len(f); i++ {
		if strings.IndexByte(idAlphabet, f[i]) < 0 {
			return false
		}
	}
	return true
}

// RuleValid: three comma-separated fields, each a valid identifier or a single '*'.
func RuleValid(rule string) bool {
	fs := strings.Split(rule, ",")
	if len(fs) != 3 {
		return false
	}
	for _, f := range fs {
		if !validField(f) {
			return false
		}
	}
	return true
}

// RulesValid: a rule set is accepted iff every rule is valid.
func RulesValid(rules []string) bool {
	for _, r := range rules {
		if !RuleValid(r) {
			return false
		}
	}
	return true
}

// Authorised: some rule matches field by field ('*' matches anything, anything else only itself).
func Authorised(rules []string, src, dst, port string) bool {
	for _, r := range rules {
		fs := strings.Split(r, ",")
		if len(fs) != 3 {
			continue
		}
		t := [3]string{src, dst, port}
		ok := true
		for i := 0; i < 3; i++ {
			if fs[i] != "*" && fs[i] != t[i] {
				ok = false
			}
		}
		if ok {
			return true
		}
	}
	return false
}
