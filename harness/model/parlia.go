package model

import (
	"bytes"
	"crypto/ecdsa"
	"math/big"
	"sort"

	"github.com/ethereum/go-ethereum/common"
	"github.com/ethereum/go-ethereum/core/types"
	"github.com/ethereum/go-ethereum/crypto"
	"github.com/ethereum/go-ethereum/rlp"
)

// PHeader is a BSC (Parlia) header as the reference model sees it.
type PHeader struct {
	ParentHash  common.Hash
	UncleHash   common.Hash
	Coinbase    common.Address
	Root        common.Hash
	TxHash      common.Hash
	ReceiptHash common.Hash
	Bloom       [256]byte
	Difficulty  uint64
	Number      uint64
	GasLimit    uint64
	GasUsed     uint64
	Time        uint64
	Extra       []byte
	MixDigest   common.Hash
	Nonce       [8]byte
}

// Hash is keccak(rlp(header)) with Ethereum field order.
func (h *PHeader) Hash() common.Hash {
	enc, _ := rlp.EncodeToBytes([]interface{}{
		h.ParentHash, h.UncleHash, h.Coinbase, h.Root, h.TxHash, h.ReceiptHash, h.Bloom,
		new(big.Int).SetUint64(h.Difficulty), new(big.Int).SetUint64(h.Number), h.GasLimit, h.GasUsed, h.Time, h.Extra, h.MixDigest, h.Nonce,
	})
	return crypto.Keccak256Hash(enc)
}

// SealHash is the Parlia signing hash: the header without the 65-byte seal, prefixed by the chain id.
func (h *PHeader) SealHash(chainID uint64) common.Hash {
	enc, _ := rlp.EncodeToBytes([]interface{}{
		new(big.Int).SetUint64(chainID),
		h.ParentHash, h.UncleHash, h.Coinbase, h.Root, h.TxHash, h.ReceiptHash, h.Bloom,
		new(big.Int).SetUint64(h.Difficulty), new(big.Int).SetUint64(h.Number), h.GasLimit, h.GasUsed, h.Time, h.Extra[:len(h.Extra)-65], h.MixDigest, h.Nonce,
	})
	return crypto.Keccak256Hash(enc)
}

// Seal signs the header in place (Extra must already end in 65 bytes of room).
func (h *PHeader) Seal(chainID uint64, key *ecdsa.PrivateKey) {
	sig, err := crypto.Sign(h.SealHash(chainID).Bytes(), key)
	if err != nil {
		panic(err)
	}
	copy(h.Extra[len(h.Extra)-65:], sig)
}

// Signer recovers the sealer; ok=false when the seal is not a valid signature.
func (h *PHeader) Signer(chainID uint64) (common.Address, bool) {
	if len(h.Extra) < 65 {
		return common.Address{}, false
	}
	pub, err := crypto.Ecrecover(h.SealHash(chainID).Bytes(), h.Extra[len(h.Extra)-65:])
	if err != nil {
		return common.Address{}, false
	}
	var a common.Address
	copy(a[:], crypto.Keccak256(pub[1:])[12:])
	return a, true
}

// Parlia is the reference light-client state.
type Parlia struct {
	ChainID    uint64
	Epoch      uint64
	Latest     PHeader
	Validators []common.Address          // current set, ascending
	Pending    []common.Address          // announced at the last epoch block
	History    map[uint64]common.Address // every accepted sealer by height (strict reading)
	Recents    map[uint64]common.Address // the bounded window real Parlia keeps
}

func sortAddrs(a []common.Address) []common.Address {
	out := append([]common.Address{}, a...)
	sort.Slice(out, func(i, j int) bool { return bytes.Compare(out[i][:], out[j][:]) < 0 })
	return out
}

// NewParlia starts from a trusted header.
func NewParlia(chainID, epoch uint64, latest PHeader, validators, pending []common.Address) *Parlia {
	return &Parlia{ChainID: chainID, Epoch: epoch, Latest: latest, Validators: sortAddrs(validators), Pending: pending,
		History: map[uint64]common.Address{}, Recents: map[uint64]common.Address{}}
}

var emptyUncleHash = types.CalcUncleHash(nil)

// Verdict of the reference rule. RecencyAmbiguous is set when the strict reading of
// "sealed none of the preceding floor(N/2) blocks" (full history) and Parlia's bounded window disagree
// (only possible right after the validator set grew): such headers are not judged.
type PVerdict struct {
	Accept           bool
	Clause           string
	RecencyAmbiguous bool
	Signer           common.Address
	InTurn           bool
}

// Check applies the rule of the statement to a candidate child header.
func (p *Parlia) Check(h *PHeader) PVerdict {
	if len(h.Extra) < 32+65 {
		return PVerdict{Clause: "short-extra"}
	}
	if h.MixDigest != (common.Hash{}) {
		return PVerdict{Clause: "mix-digest"}
	}
	if h.UncleHash != emptyUncleHash {
		return PVerdict{Clause: "uncle-hash"}
	}
	if h.Difficulty == 0 {
		return PVerdict{Clause: "difficulty"}
	}
	valBytes := len(h.Extra) - 32 - 65
	isEpoch := h.Number%p.Epoch == 0
	if !isEpoch && valBytes != 0 {
		return PVerdict{Clause: "validators-on-non-epoch-block"}
	}
	if isEpoch && valBytes%20 != 0 {
		return PVerdict{Clause: "epoch-validator-bytes"}
	}
	if h.Number != p.Latest.Number+1 || h.ParentHash != p.Latest.Hash() {
		return PVerdict{Clause: "not-child-of-latest"}
	}
	if h.GasLimit > 0x7fffffffffffffff {
		return PVerdict{Clause: "gas-limit-cap"}
	}
	if h.GasUsed > h.GasLimit {
		return PVerdict{Clause: "gas-used"}
	}
	diff := int64(p.Latest.GasLimit) - int64(h.GasLimit)
	if diff < 0 {
		diff = -diff
	}
	if uint64(diff) >= p.Latest.GasLimit/256 || h.GasLimit < 5000 {
		return PVerdict{Clause: "gas-limit-bound"}
	}
	signer, ok := h.Signer(p.ChainID)
	if !ok {
		return PVerdict{Clause: "bad-seal"}
	}
	if signer != h.Coinbase {
		return PVerdict{Clause: "coinbase"}
	}
	member := false
	for _, v := range p.Validators {
		if v == signer {
			member = true
		}
	}
	if !member {
		return PVerdict{Clause: "not-a-validator", Signer: signer}
	}
	n := uint64(len(p.Validators))
	strict := false
	for k := uint64(1); k <= n/2 && k <= h.Number; k++ {
		if s, ok := p.History[h.Number-k]; ok && s == signer {
			strict = true
		}
	}
	window := false
	for seen, s := range p.Recents {
		if s == signer && seen+n/2+1 > h.Number {
			window = true
		}
	}
	inturn := p.Validators[h.Number%n] == signer
	v := PVerdict{Signer: signer, InTurn: inturn}
	if strict != window {
		v.RecencyAmbiguous = true
	}
	if strict || window {
		if strict && window {
			v.Clause = "recently-signed"
			return v
		}
	}
	if (inturn && h.Difficulty != 2) || (!inturn && h.Difficulty != 1) {
		v.Clause = "difficulty"
		return v
	}
	if v.RecencyAmbiguous {
		v.Clause = "recency-ambiguous"
		return v
	}
	v.Accept = true
	return v
}

// Apply advances the reference state with an accepted header.
func (p *Parlia) Apply(h *PHeader, signer common.Address) {
	p.History[h.Number] = signer
	p.Recents[h.Number] = signer
	if h.Number%p.Epoch == 0 {
		p.Pending = nil
		vb := h.Extra[32 : len(h.Extra)-65]
		for i := 0; i+20 <= len(vb); i += 20 {
			p.Pending = append(p.Pending, common.BytesToAddress(vb[i:i+20]))
		}
	}
	old := len(p.Validators)
	if h.Number%p.Epoch == uint64(old/2) {
		newVals := sortAddrs(p.Pending)
		oldLimit, newLimit := old/2+1, len(newVals)/2+1
		if newLimit < oldLimit {
			for i := 0; i < oldLimit-newLimit; i++ {
				delete(p.Recents, h.Number-uint64(newLimit)-uint64(i))
			}
		}
		p.Validators = newVals
	}
	if limit := uint64(len(p.Validators)/2 + 1); h.Number >= limit {
		delete(p.Recents, h.Number-limit)
	}
	p.Latest = *h
}
