package checks

import (
	"bytes"
	"fmt"
	"math/rand"
	"sort"
	"sync"
	"testing"
	"time"

	cmtcrypto "github.com/cometbft/cometbft/crypto"
	"github.com/cometbft/cometbft/crypto/ed25519"
	cmtproto "github.com/cometbft/cometbft/proto/tendermint/types"
	cmttypes "github.com/cometbft/cometbft/types"
	sdk "github.com/cosmos/cosmos-sdk/types"

	clienttypes "github.com/bianjieai/tibc-go/modules/tibc/core/02-client/types"
	commitmenttypes "github.com/bianjieai/tibc-go/modules/tibc/core/23-commitment/types"
	ibctm "github.com/bianjieai/tibc-go/modules/tibc/light-clients/07-tendermint/types"

	"verif/model"
	"verif/mon"
	"verif/vnet"
)

type spv struct{ k ed25519.PrivKey }

func (p spv) GetPubKey() (cmtcrypto.PubKey, error) { return p.k.PubKey(), nil }
func (p spv) SignVote(chainID string, vote *cmtproto.Vote) error {
	sig, err := p.k.Sign(cmttypes.VoteSignBytes(chainID, vote))
	vote.Signature = sig
	return err
}
func (p spv) SignProposal(chainID string, pr *cmtproto.Proposal) error { return nil }

// synthetic Tendermint chain
type synthChain struct {
	id      string
	rev     uint64
	keys    []ed25519.PrivKey
	signers map[string]cmttypes.PrivValidator
	vals    map[uint64]*cmttypes.ValidatorSet // by height (1..n+1)
	times   map[uint64]time.Time
	app     map[uint64][]byte
	n       uint64
}

func newSynth(rng *rand.Rand, seed int64, n uint64, rev uint64) *synthChain {
	s := &synthChain{id: fmt.Sprintf("synthnet-%d", rev), rev: rev, signers: map[string]cmttypes.PrivValidator{}, vals: map[uint64]*cmttypes.ValidatorSet{}, times: map[uint64]time.Time{}, app: map[uint64][]byte{}, n: n}
	for i := 0; i < 9; i++ {
		k := ed25519.GenPrivKeyFromSecret([]byte(fmt.Sprintf("c07/%d/%d", seed, i)))
		s.keys = append(s.keys, k)
		s.signers[k.PubKey().Address().String()] = spv{k}
	}
	cur := map[int]int64{}
	for len(cur) == 0 {
		for i := range s.keys {
			if rng.Intn(2) == 0 {
				cur[i] = s.power(rng)
			}
		}
	}
	t := time.Date(2022, 5, 6, 7, 8, 9, 123456789, time.UTC)
	for h := uint64(1); h <= n+1; h++ {
		var vs []*cmttypes.Validator
		for i, p := range cur {
			vs = append(vs, cmttypes.NewValidator(s.keys[i].PubKey(), p))
		}
		s.vals[h] = cmttypes.NewValidatorSet(vs)
		s.times[h] = t
		t = t.Add(time.Duration(1+rng.Intn(10)) * time.Second).Add(time.Duration(rng.Intn(1000)))
		a := make([]byte, 32)
		rng.Read(a)
		s.app[h] = a
		// change the set for the next height now and then
		if rng.Intn(3) == 0 {
			i := rng.Intn(len(s.keys))
			switch rng.Intn(3) {
			case 0:
				cur[i] = s.power(rng)
			case 1:
				if len(cur) > 1 {
					delete(cur, i)
				}
			case 2:
				if _, ok := cur[i]; ok {
					cur[i] = s.power(rng)
				} else {
					cur[i] = s.power(rng)
				}
			}
		}
	}
	return s
}

func (s *synthChain) power(rng *rand.Rand) int64 {
	if rng.Intn(5) == 0 {
		return int64(1 + rng.Intn(1000)) // skewed
	}
	return int64(1 + rng.Intn(4))
}

func mvals(vs *cmttypes.ValidatorSet) []model.TMVal {
	var out []model.TMVal
	for _, v := range vs.Validators {
		out = append(out, model.TMVal{Addr: v.Address.String(), Power: v.VotingPower})
	}
	return out
}

// subset picks signers of vs: random, or steered towards the 1/3 and 2/3 boundaries
func subset(rng *rand.Rand, vs *cmttypes.ValidatorSet) map[string]bool {
	out := map[string]bool{}
	switch rng.Intn(4) {
	case 0: // everybody
		for _, v := range vs.Validators {
			out[v.Address.String()] = true
		}
	case 1: // random
		for _, v := range vs.Validators {
			if rng.Intn(2) == 0 {
				out[v.Address.String()] = true
			}
		}
	default: // greedy fill up to a threshold, then maybe one more
		total := vs.TotalVotingPower()
		target := total * 2 / 3
		if rng.Intn(2) == 0 {
			target = total / 3
		}
		perm := rng.Perm(len(vs.Validators))
		var sum int64
		for _, i := range perm {
			v := vs.Validators[i]
			if sum+v.VotingPower <= target {
				sum += v.VotingPower
				out[v.Address.String()] = true
			}
		}
		if rng.Intn(2) == 0 {
			for _, i := range perm {
				v := vs.Validators[i]
				if !out[v.Address.String()] {
					out[v.Address.String()] = true
					break
				}
			}
		}
	}
	return out
}

func TestC07(t *testing.T) {
	rec := mon.New("C07", "exploration",
		"synthetic Tendermint chains (1-9 validators, random and skewed powers, set changes, really signed by chosen subsets incl. subsets sitting exactly on the 1/3 and 2/3 thresholds) against a real 07-tendermint client in a real client store with several stored consensus states; "+
			"candidates vary target height (past, adjacent, non-adjacent), trusted height (stored / missing), supplied trusted set, header time and block time placed at, 1ns before and 1ns after every boundary, chain id / revision, claimed validator hash; UpdateClient's verdict is compared with a reference rule evaluated on the generator's knowledge, and the store is compared after acceptance / rejection. distinct = distinct (first failing reference clause, adjacent?, boundary case) tuples")
	rec.Require("accepted", "rejected/two-thirds", "rejected/trust-level", "rejected/client-expired", "rejected/trusted-validators-mismatch", "rejected/time-in-future", "rejected/adjacent-validators")
	seed := mon.Seed()
	nChains := mon.Scale(48, 800)
	perChain := mon.Scale(160, 260)
	var wg sync.WaitGroup
	jobs := make(chan int)
	for wk := 0; wk < 16; wk++ {
		wg.Add(1)
		go func() {
			defer wg.Done()
			for j := range jobs {
				rng := rand.New(rand.NewSource(seed*9973 + int64(j)))
				c07Chain(rec, rng, seed*9973+int64(j), perChain)
			}
		}()
	}
	for j := 0; j < nChains; j++ {
		jobs <- j
	}
	close(jobs)
	wg.Wait()
	setExit(rec.Finish())
}

func c07Chain(rec *mon.Recorder, rng *rand.Rand, seed int64, nCand int) {
	net := vnet.New(seed, rng, []string{"alphachain"}, 1, 2)
	host := net.Chains[0]
	ck := host.App.TIBCKeeper.ClientKeeper
	chains := map[uint64]*synthChain{2: newSynth(rng, seed, 40, 2)}
	s := chains[2]
	name := "synthnet-2"
	tl := []ibctm.Fraction{{Numerator: 1, Denominator: 3}, {Numerator: 2, Denominator: 3}, {Numerator: 1, Denominator: 2}, {Numerator: 2, Denominator: 5}}[rng.Intn(4)]
	period := time.Duration(1+rng.Intn(48)) * time.Hour
	drift := time.Duration(1+rng.Intn(20)) * time.Second
	h0 := uint64(1 + rng.Intn(3))
	mk := func(sc *synthChain, h uint64, ts time.Time, signers map[string]bool, chainID string, vals *cmttypes.ValidatorSet) *ibctm.Header {
		return vnet.MakeTMHeader(chainID, int64(h), ts, sc.app[h], vals, sc.vals[h+1], sc.signers, signers)
	}
	all := func(vs *cmttypes.ValidatorSet) map[string]bool {
		m := map[string]bool{}
		for _, v := range vs.Validators {
			m[v.Address.String()] = true
		}
		return m
	}
	first := mk(s, h0, s.times[h0], all(s.vals[h0]), s.id, s.vals[h0])
	cs := ibctm.NewClientState(s.id, tl, period, period*2, drift, clienttypes.NewHeight(s.rev, h0), commitmenttypes.GetSDKSpecs(), commitmenttypes.MerklePrefix{KeyPrefix: []byte("tibc")}, 0)
	base := host.Ctx().WithBlockTime(s.times[h0].Add(time.Second))
	if err := ck.CreateClient(base, name, cs, first.ConsensusState()); err != nil {
		rec.Inconclusive("create client: " + err.Error())
		return
	}
	mc := &model.TMClient{ChainName: "synthnet", TrustNum: int64(tl.Numerator), TrustDen: int64(tl.Denominator), TrustingPeriod: period, MaxClockDrift: drift,
		Latest: model.TMKey{Rev: 2, Height: h0}, Stored: map[model.TMKey]model.TMStored{{Rev: 2, Height: h0}: {Time: s.times[h0], NextValsHash: string(s.vals[h0+1].Hash())}}}

	dumpClient := func(ctx sdk.Context) string {
		st := ck.ClientStore(ctx, name)
		it := st.Iterator(nil, nil)
		defer it.Close()
		var sb bytes.Buffer
		for ; it.Valid(); it.Next() {
			fmt.Fprintf(&sb, "%x=%x;", it.Key(), it.Value())
		}
		return sb.String()
	}
	ctx := base
	upgradeAt := -1
	if rng.Intn(3) == 0 {
		upgradeAt = nCand/3 + rng.Intn(nCand/3)
	}
	for i := 0; i < nCand; i++ {
		if rec.Unlisted() > 3 {
			return
		}
		if i == upgradeAt {
			// governance moves the client to the next revision of the chain (new chain id, new validator history)
			// while states of the old revision are still stored
			n3 := newSynth(rng, seed+1, 40, 3)
			// the new revision starts after the old one in time
			shift := mc.Stored[mc.Latest].Time.Sub(n3.times[1]) + time.Minute
			for h := range n3.times {
				n3.times[h] = n3.times[h].Add(shift)
			}
			chains[3] = n3
			g0 := uint64(1 + rng.Intn(3))
			ncs := ibctm.NewClientState(n3.id, tl, period, period*2, drift, clienttypes.NewHeight(3, g0), commitmenttypes.GetSDKSpecs(), commitmenttypes.MerklePrefix{KeyPrefix: []byte("tibc")}, 0)
			hdr := mk(n3, g0, n3.times[g0], all(n3.vals[g0]), n3.id, n3.vals[g0])
			uctx := ctx.WithBlockTime(n3.times[g0].Add(time.Second))
			if err := ck.UpgradeClient(uctx, name, ncs, hdr.ConsensusState()); err != nil {
				rec.Inconclusive("upgrade client: " + err.Error())
				return
			}
			ctx = uctx
			mc.Latest = model.TMKey{Rev: 3, Height: g0}
			mc.Stored[mc.Latest] = model.TMStored{Time: n3.times[g0], NextValsHash: string(n3.vals[g0+1].Hash())}
			rec.Count("revision-upgrades", 1)
		}
		stored := make([]model.TMKey, 0, len(mc.Stored))
		for k := range mc.Stored {
			stored = append(stored, k)
		}
		sort.Slice(stored, func(a, b int) bool { return stored[a].Less(stored[b]) })
		// trusted height (of any stored revision)
		tk := stored[rng.Intn(len(stored))]
		if rng.Intn(12) == 0 {
			tk.Height = uint64(1 + rng.Intn(40)) // possibly missing
		}
		th := tk.Height
		// the header's chain: normally the trusted state's revision, sometimes the other one
		hrev := tk.Rev
		if len(chains) > 1 && rng.Intn(5) == 0 {
			hrev = 5 - tk.Rev
		}
		s := chains[hrev]
		if s == nil {
			s = chains[2]
			hrev = 2
		}
		// target height
		var H uint64
		switch rng.Intn(6) {
		case 0:
			H = th + 1
		case 1:
			H = th // not newer
		case 2:
			if th > 1 {
				H = th - 1
			} else {
				H = th + 2
			}
		default:
			H = th + 1 + uint64(rng.Intn(8))
		}
		if H < 1 {
			H = 1
		}
		if H > s.n {
			H = s.n
		}
		hdrTime := s.times[H]
		tst, hasT := mc.Stored[tk]
		bcase := "plain"
		if hrev != tk.Rev {
			bcase = "cross-revision"
		}
		// header time placed on the trusted time
		if hasT && rng.Intn(10) == 0 {
			hdrTime = tst.Time.Add(time.Duration(rng.Intn(3)-1) * time.Nanosecond)
			bcase = "time-vs-trusted"
		}
		vals := s.vals[H]
		if rng.Intn(10) == 0 {
			// a header that commits to (and is signed by) another validator set than the chain's
			vals = s.vals[uint64(1+rng.Intn(int(s.n)))]
			bcase = "foreign-validator-set"
		}
		signers := subset(rng, vals)
		chainID := s.id
		chainName := "synthnet"
		if rng.Intn(25) == 0 {
			chainID = "synthnet-7"
			bcase = "other-revision"
		} else if rng.Intn(25) == 0 {
			chainID = fmt.Sprintf("otherchain-%d", hrev)
			chainName = "otherchain"
			bcase = "other-chain"
		}
		// now and then a second, equally well signed block for the height (another app hash): if accepted, it is
		// the one that has to be stored, also where a state for that height exists already
		appHash := s.app[H]
		if rng.Intn(8) == 0 {
			appHash = make([]byte, 32)
			rng.Read(appHash)
			if _, has := mc.Stored[model.TMKey{Rev: hrev, Height: H}]; has {
				rec.Count("second-block-for-stored-height", 1)
			}
		}
		hdr := vnet.MakeTMHeader(chainID, int64(H), hdrTime, appHash, vals, s.vals[H+1], s.signers, signers)
		hdr.TrustedHeight = clienttypes.NewHeight(tk.Rev, th)
		ts := chains[tk.Rev]
		if ts == nil {
			ts = s
		}
		tvals := ts.vals[th+1]
		if tvals == nil || rng.Intn(10) == 0 {
			tvals = ts.vals[uint64(1+rng.Intn(int(ts.n)))]
			bcase = "other-trusted-set"
		}
		tvp, _ := tvals.ToProto()
		hdr.TrustedValidators = tvp
		claimed := string(vals.Hash())
		if rng.Intn(20) == 0 {
			o := s.vals[uint64(1+rng.Intn(int(s.n)))]
			vp, _ := o.ToProto()
			hdr.ValidatorSet = vp // does not hash to the header's ValidatorsHash (unless equal)
			claimed = string(o.Hash())
			bcase = "validator-set-swapped"
		}
		// block time
		latest := mc.Stored[mc.Latest]
		now := hdrTime.Add(time.Duration(rng.Intn(5000)) * time.Millisecond)
		if now.Before(ctx.BlockTime()) && rng.Intn(2) == 0 {
			now = ctx.BlockTime().Add(time.Duration(rng.Intn(5000)) * time.Millisecond)
		}
		switch rng.Intn(9) {
		case 0:
			now = hdrTime.Add(-drift).Add(time.Duration(rng.Intn(3)-1) * time.Nanosecond)
			bcase = "drift-boundary"
		case 1:
			if hasT {
				now = tst.Time.Add(period).Add(time.Duration(rng.Intn(3)-1) * time.Nanosecond)
				bcase = "trusted-expiry-boundary"
			}
		case 2:
			now = latest.Time.Add(period).Add(time.Duration(rng.Intn(3)-1) * time.Nanosecond)
			bcase = "client-expiry-boundary"
		case 3:
			now = latest.Time.Add(period).Add(time.Duration(rng.Intn(100000)) * time.Second)
			bcase = "long-expired"
		}
		mh := &model.TMHeader{ChainName: chainName, Revision: clienttypes.ParseChainID(chainID), Height: H, Time: hdrTime, Vals: mvals(vals), ValsHash: string(vals.Hash()), ClaimedValsHash: claimed,
			NextValsHash: string(s.vals[H+1].Hash()), Signers: signers, TrustedRevision: tk.Rev, TrustedHeight: th, TrustedVals: mvals(tvals), TrustedValsHash: string(tvals.Hash())}
		want, clause := model.TMAccept(mc, mh, now)

		cctx, write := ctx.WithBlockTime(now).CacheContext()
		before := dumpClient(cctx)
		var err error
		if err = hdr.ValidateBasic(); err == nil {
			err = ck.UpdateClient(cctx, name, hdr)
		}
		got := err == nil
		cl := "accepted"
		if !want {
			cl = "rejected/" + clause
		}
		rec.Judge(cl, H == th+1, bcase, got, len(chains))
		if len(rec.Samples()) < 4 && (i%37 == 5) {
			rec.Sample(map[string]any{"target_height": fmt.Sprintf("%d-%d", mh.Revision, H), "trusted_height": fmt.Sprintf("%d-%d", tk.Rev, th), "signers": len(signers), "validators": len(vals.Validators), "case": bcase, "now": now, "header_time": hdrTime, "reference": cl, "implementation_accepted": got})
		}
		if got != want {
			el := ""
			if err != nil {
				el = err.Error()
			}
			rec.Violate("acceptance-differs-from-light-client-rule", map[string]string{"reference": cl, "got": fmt.Sprint(got), "case": bcase},
				fmt.Sprintf("header %d-%d trusted %d-%d (client latest %d-%d) now %s header time %s signers %d/%d trust level %d/%d: implementation accepted=%v (%s), reference: %s",
					mh.Revision, H, tk.Rev, th, mc.Latest.Rev, mc.Latest.Height, now, hdrTime, len(signers), len(vals.Validators), tl.Numerator, tl.Denominator, got, el, cl), nil)
			continue
		}
		if !got {
			if dumpClient(cctx) != before {
				rec.Violate("rejected-header-changed-client-store", map[string]string{"reference": cl}, "", nil)
			}
			continue
		}
		// accepted: stored state is the header's, latest never decreases
		hk := model.TMKey{Rev: mh.Revision, Height: H}
		st, ok := ck.GetClientConsensusState(cctx, name, clienttypes.NewHeight(hk.Rev, H))
		tcs, _ := st.(*ibctm.ConsensusState)
		ncs, _ := ck.GetClientState(cctx, name)
		wantLatest := mc.Latest
		if wantLatest.Less(hk) {
			wantLatest = hk
		}
		gl := ncs.GetLatestHeight()
		if !ok || tcs == nil || !tcs.Timestamp.Equal(hdrTime) || !bytes.Equal(tcs.Root.Hash, appHash) || !bytes.Equal(tcs.NextValidatorsHash, s.vals[H+1].Hash()) ||
			gl.GetRevisionHeight() != wantLatest.Height || gl.GetRevisionNumber() != wantLatest.Rev {
			rec.Violate("accepted-header-stored-wrongly", nil, fmt.Sprintf("height %d-%d: stored %+v latest %s (want %d-%d)", hk.Rev, H, tcs, gl, wantLatest.Rev, wantLatest.Height), nil)
			continue
		}
		// keep a third of the accepted updates so that the client accumulates states
		if rng.Intn(3) == 0 {
			write()
			ctx = ctx.WithBlockTime(now)
			mc.Stored[hk] = model.TMStored{Time: hdrTime, NextValsHash: string(s.vals[H+1].Hash())}
			mc.Latest = wantLatest
			// re-sync the model's stored set with the real store (pruning of expired states is not part of the statement)
			for k := range mc.Stored {
				if _, ok := ck.GetClientConsensusState(ctx, name, clienttypes.NewHeight(k.Rev, k.Height)); !ok {
					delete(mc.Stored, k)
				}
			}
		}
	}
}
