package checks

import (
	"fmt"
	"math/rand"
	"strings"
	"sync"
	"testing"

	sdk "github.com/cosmos/cosmos-sdk/types"

	routingtypes "github.com/bianjieai/tibc-go/modules/tibc/core/26-routing/types"

	"verif/model"
	"verif/mon"
	"verif/vnet"
)

// hostile field generator: full alphabet with emphasis on regex metacharacters.
func genField(rng *rand.Rand) string {
	special := "+[]-.#<>_"
	alpha := "ab"
	switch rng.Intn(10) {
	case 0:
		return "*"
	case 1: // classic regex-near shapes
		return []string{"a+b", "a[bc]", "a.b", "[", "]", "a]", "[a", "a+", "+a", "a-b", "[a-c]", "a#b", "<a>", "a..b", "x+[y]", "[]", "a[b", "[a-", "a++", "(a)"[1:2]}[rng.Intn(20)]
	}
	n := 1 + rng.Intn(4)
	var sb strings.Builder
	for i := 0; i < n; i++ {
		if rng.Intn(3) == 0 {
			sb.WriteByte(special[rng.Intn(len(special))])
		} else {
			sb.WriteByte(alpha[rng.Intn(len(alpha))])
		}
	}
	return sb.String()
}

// a value "near" a rule field: what a regex reading of the field would also match
func nearValue(rng *rand.Rand, f string) string {
	if f == "*" {
		return genField(rng)
	}
	switch rng.Intn(6) {
	case 0:
		return f
	case 1: // '.' as any char
		return strings.Replace(f, ".", "x", 1)
	case 2: // 'a+' as repetition
		i := strings.IndexByte(f, '+')
		if i > 0 {
			return f[:i] + string(f[i-1]) + f[i+1:]
		}
		return f + "a"
	case 3: // '[bc]' as a class
		i, j := strings.IndexByte(f, '['), strings.IndexByte(f, ']')
		if i >= 0 && j > i+1 {
			return f[:i] + string(f[i+1]) + f[j+1:]
		}
		return f
	case 4: // prefix / suffix (anchoring)
		return "a" + f
	default:
		return f + "b"
	}
}

func genRule(rng *rand.Rand) string {
	switch rng.Intn(14) {
	case 0: // malformed
		return []string{"a,b", "a,b,c,d", ",b,c", "a,,c", "a,b,", "**,b,c", "a b,c,d", "a,b,c ", strings.Repeat("a", 65) + ",b,c", "a,b,c,", "", "*", "a;b,c,d", "a/b,c,d", "a,*b,c", "a,b*,c"}[rng.Intn(16)]
	case 1:
		return strings.Repeat("a", 64) + "," + genField(rng) + "," + genField(rng)
	}
	return genField(rng) + "," + genField(rng) + "," + genField(rng)
}

func TestC12(t *testing.T) {
	rec := mon.New("C12", "exploration",
		"random rule lists (1-4 rules) over the identifier alphabet with emphasis on + [ ] - . # < >, malformed rules, and triples that are equal to / regex-near / unrelated to a rule; "+
			"SetRoutingRules and Authenticate run on a real keeper over a branched context of a real chain and are compared with the field-wise reference; distinct = distinct (rule list, triple) pairs")
	rec.Require("reverted-rule-changes", "committed-rule-changes", "set-accepted", "set-rejected", "auth-true", "auth-false", "via-msg")
	seed := mon.Seed()
	nCases := mon.Scale(60_000, 1_200_000)
	workers := 16
	var wg sync.WaitGroup
	for wk := 0; wk < workers; wk++ {
		wg.Add(1)
		go func(wk int) {
			defer wg.Done()
			rng := rand.New(rand.NewSource(seed*31 + int64(wk)))
			net := vnet.New(seed, rng, []string{"alphachain"}, 1, 2)
			c := net.Chains[0]
			k := c.App.TIBCKeeper.RoutingKeeper
			base := c.Ctx()
			// no rules stored at all: nothing is authorised
			for i := 0; i < 50; i++ {
				ctx, _ := base.CacheContext()
				ctx.KVStore(c.App.GetKey("tibc")).Delete([]byte("Routing/Rules"))
				s, d, p := genField(rng), genField(rng), genField(rng)
				rec.Judge("no-rules", s, d, p)
				if k.Authenticate(ctx, s, d, p) {
					rec.Violate("authorised-without-rules", map[string]string{}, fmt.Sprintf("%q,%q,%q", s, d, p), nil)
				}
			}
			for i := 0; i < nCases/workers; i++ {
				if rec.Unlisted() > 5 {
					return
				}
				nr := 1 + rng.Intn(4)
				rules := make([]string, nr)
				for j := range rules {
					rules[j] = genRule(rng)
				}
				ctx, _ := base.CacheContext()
				err := k.SetRoutingRules(ctx, rules)
				want := model.RulesValid(rules)
				rec.Judge("set", strings.Join(rules, ";"))
				if (err == nil) != want {
					rec.Violate("rule-set-acceptance-differs", map[string]string{"accepted": fmt.Sprint(err == nil)},
						fmt.Sprintf("rules %q: implementation accepted=%v, reference valid=%v", rules, err == nil, want), map[string]any{"rules": rules})
					continue
				}
				if err != nil {
					rec.Count("set-rejected", 1)
					continue
				}
				rec.Count("set-accepted", 1)
				for q := 0; q < 4; q++ {
					r := rules[rng.Intn(len(rules))]
					fs := strings.Split(r, ",")
					var tr [3]string
					for x := 0; x < 3; x++ {
						if rng.Intn(5) == 0 {
							tr[x] = genField(rng)
							if tr[x] == "*" {
								tr[x] = "a"
							}
						} else {
							tr[x] = nearValue(rng, fs[x])
						}
						if tr[x] == "*" {
							tr[x] = "ab"
						}
					}
					got := k.Authenticate(ctx, tr[0], tr[1], tr[2])
					exp := model.Authorised(rules, tr[0], tr[1], tr[2])
					rec.Judge("auth", strings.Join(rules, ";"), tr)
					if exp {
						rec.Count("auth-true", 1)
					} else {
						rec.Count("auth-false", 1)
					}
					if got != exp {
						meta := "none"
						for _, ch := range "+[]" {
							if strings.ContainsRune(strings.Join(rules, ""), ch) {
								meta = "regex-metachar"
							}
						}
						rec.Violate("authenticate-differs-from-fieldwise-match", map[string]string{"rule_chars": meta, "got": fmt.Sprint(got)},
							fmt.Sprintf("rules %q triple %q: Authenticate=%v, field-wise match=%v", rules, tr, got, exp), map[string]any{"rules": rules, "triple": tr})
					}
					if len(rec.Samples()) < 3 {
						rec.Sample(map[string]any{"rules": rules, "triple": tr, "authorised": got})
					}
				}
			}
			// a sample through the governance message path (ValidateBasic + handler)
			for i := 0; i < mon.Scale(40, 400)/workers+1; i++ {
				rules := []string{genRule(rng), genRule(rng)}
				r := c.GovExec(&routingtypes.MsgSetRoutingRules{Title: "t", Description: "d", Rules: rules, Authority: c.GovAddr})
				want := model.RulesValid(rules)
				rec.Judge("set-via-msg", strings.Join(rules, ";"))
				rec.Count("via-msg", 1)
				if r.OK() != want {
					rec.Violate("rule-set-acceptance-differs", map[string]string{"accepted": fmt.Sprint(r.OK()), "path": "msg"}, fmt.Sprintf("rules %q: %s", rules, r.Log), nil)
				}
				if !r.OK() && len(r.Diff) != 0 {
					rec.Violate("rejected-rules-changed-state", nil, r.Log, nil)
				}
			}
			// committed and reverted rule changes in a row: Authenticate on the committed state follows the stored rules
			// only (a change made inside a transaction that fails later never took place)
			var stored []string
			validSet := func() []string {
				for {
					rs := []string{genRule(rng), genRule(rng)}
					if rng.Intn(3) == 0 {
						rs = append(rs, "*,*,*")
					}
					if model.RulesValid(rs) {
						return rs
					}
				}
			}
			for i := 0; i < mon.Scale(60, 600)/workers+2; i++ {
				rules := validSet()
				msg := &routingtypes.MsgSetRoutingRules{Title: "t", Description: "d", Rules: rules, Authority: c.GovAddr}
				reverted := rng.Intn(2) == 0 && i > 0
				if reverted {
					r := c.Exec(func(ctx sdk.Context) error {
						if _, err := c.App.MsgServiceRouter().Handler(msg)(ctx, msg); err != nil {
							return err
						}
						return fmt.Errorf("a later message of the same transaction fails")
					})
					if len(r.Diff) != 0 {
						rec.Violate("rejected-rules-changed-state", nil, "reverted rule change left a diff", nil)
					}
					rec.Count("reverted-rule-changes", 1)
				} else if r := c.GovExec(msg); r.OK() {
					stored = rules
					rec.Count("committed-rule-changes", 1)
				}
				for j := 0; j < 8; j++ {
					src := rules
					if j%2 == 1 && stored != nil {
						src = stored
					}
					f := strings.Split(src[rng.Intn(len(src))], ",")
					tr := [3]string{f[0], f[1], f[2]}
					for x := range tr {
						if tr[x] == "*" || rng.Intn(4) == 0 {
							tr[x] = genField(rng)
						}
					}
					got := k.Authenticate(c.Ctx(), tr[0], tr[1], tr[2])
					exp := model.Authorised(stored, tr[0], tr[1], tr[2])
					rec.Judge("auth-after-change", reverted, strings.Join(stored, ";"), tr)
					if got != exp {
						rec.Violate("authenticate-differs-from-stored-rules", map[string]string{"after": map[bool]string{true: "reverted-change", false: "committed-change"}[reverted], "got": fmt.Sprint(got)},
							fmt.Sprintf("stored rules %q, last attempted %q (reverted=%v), triple %q: Authenticate=%v, field-wise match against the stored rules=%v", stored, rules, reverted, tr, got, exp), nil)
					}
				}
			}
		}(wk)
	}
	wg.Wait()
	setExit(rec.Finish())
}
