package checks

import (
	"bytes"
	"fmt"
	"math/rand"
	"strings"
	"sync"
	"testing"
	"time"

	storetypes "cosmossdk.io/store/types"
	sdk "github.com/cosmos/cosmos-sdk/types"
	"github.com/ethereum/go-ethereum/common"

	clienttypes "github.com/bianjieai/tibc-go/modules/tibc/core/02-client/types"
	commitmenttypes "github.com/bianjieai/tibc-go/modules/tibc/core/23-commitment/types"
	host "github.com/bianjieai/tibc-go/modules/tibc/core/24-host"
	"github.com/bianjieai/tibc-go/modules/tibc/core/exported"
	ibctm "github.com/bianjieai/tibc-go/modules/tibc/light-clients/07-tendermint/types"
	bsctypes "github.com/bianjieai/tibc-go/modules/tibc/light-clients/08-bsc/types"
	ethtypes "github.com/bianjieai/tibc-go/modules/tibc/light-clients/09-eth/types"

	"verif/model"
	"verif/mon"
	"verif/vnet"
	"verif/world"
)

type claimKey struct {
	kind     string // commitment | ack | clean
	src, dst string
	seq      uint64
}

func (k claimKey) path() []byte {
	switch k.kind {
	case "commitment":
		return host.PacketCommitmentKey(k.src, k.dst, k.seq)
	case "ack":
		return host.PacketAcknowledgementKey(k.src, k.dst, k.seq)
	}
	return host.CleanPacketCommitmentKey(k.src, k.dst)
}

var c08chains = []string{"eth-mainnet", "bsc.chain-56", "cosmoshub-4", "irishub-1"}

func randKey(rng *rand.Rand) claimKey {
	k := claimKey{kind: []string{"commitment", "ack", "clean"}[rng.Intn(3)], src: c08chains[rng.Intn(len(c08chains))], dst: c08chains[rng.Intn(len(c08chains))], seq: uint64(1 + rng.Intn(12))}
	if k.kind == "clean" {
		k.seq = 0
	}
	return k
}

func randValue(rng *rand.Rand, kind string) []byte {
	if kind == "clean" {
		return sdk.Uint64ToBigEndian(uint64(1 + rng.Intn(300)))
	}
	v := make([]byte, 32)
	rng.Read(v)
	if rng.Intn(8) == 0 {
		v[0], v[1] = 0, 0 // leading zero bytes are trimmed in the trie encoding
	}
	return v
}

func callVerify(cs exported.ClientState, ctx sdk.Context, store storetypes.KVStore, c *vnet.Chain, h exported.Height, proof []byte, k claimKey, value []byte) (err error, panicked any) {
	defer func() {
		if r := recover(); r != nil {
			panicked = r
		}
	}()
	cdc := c.App.AppCodec()
	switch k.kind {
	case "commitment":
		err = cs.VerifyPacketCommitment(ctx, store, cdc, h, proof, k.src, k.dst, k.seq, value)
	case "ack":
		err = cs.VerifyPacketAcknowledgement(ctx, store, cdc, h, proof, k.src, k.dst, k.seq, value)
	default:
		seq := uint64(0)
		if len(value) == 8 {
			seq = sdk.BigEndianToUint64(value)
		}
		err = cs.VerifyPacketCleanCommitment(ctx, store, cdc, h, proof, k.src, k.dst, seq)
	}
	return
}

func TestC08(t *testing.T) {
	rec := mon.New("C08", "exploration",
		"per client type: generated key/value sets (commitments, acks, clean points over several (src,dst,seq)) in a real counterparty store (Tendermint: IAVL store of a real SimApp, proofs from ABCI queries; BSC/ETH: Merkle-Patricia account + storage tries built with go-ethereum, eth_getProof-shaped proofs) at 3 heights; "+
			"claims for present / absent keys with equal / different / other-height / other-key values; proofs genuine, for another key, from another height's root, truncated, shuffled, sub-proofs swapped, other contract address, altered account fields; heights <= / > latest and without consensus state; delay (time for Tendermint, blocks for BSC/ETH) exactly at, before and after the bound. "+
			"oracle: a false claim must be rejected; a true claim with its genuine proof and all side conditions met must be accepted; true claim + damaged proof is not judged. distinct = distinct (client type, claim kind, truth, proof variant, side-condition case) tuples")
	rec.Require("true-genuine/007-tendermint", "true-genuine/008-bsc", "true-genuine/009-eth", "false-claim/007-tendermint", "false-claim/008-bsc", "false-claim/009-eth")
	seed := mon.Seed()
	var wg sync.WaitGroup
	nWorlds := mon.Scale(64, 1200)
	jobs := make(chan int)
	for wk := 0; wk < 16; wk++ {
		wg.Add(1)
		go func() {
			defer wg.Done()
			for j := range jobs {
				rng := rand.New(rand.NewSource(seed*4099 + int64(j)))
				if j%2 == 0 {
					c08Eth(rec, rng, seed*4099+int64(j), mon.Scale(150, 300))
				} else {
					c08TM(rec, rng, seed*4099+int64(j), mon.Scale(120, 240))
				}
			}
		}()
	}
	for j := 0; j < nWorlds; j++ {
		jobs <- j
	}
	close(jobs)
	wg.Wait()
	setExit(rec.Finish())
}

type c08outcome struct {
	typ, kind, variant, side string
	truth, genuine           bool
}

func c08Judge(rec *mon.Recorder, o c08outcome, err error, panicked any, detail func() string) {
	cl := "false-claim/"
	if o.truth {
		if o.genuine {
			cl = "true-genuine/"
		} else {
			cl = "true-damaged-not-judged/"
		}
	}
	rec.Judge(cl+o.typ, o.kind, o.variant, o.side, err == nil)
	attrs := map[string]string{"client": o.typ, "kind": o.kind, "variant": o.variant, "side": o.side}
	switch {
	case panicked != nil:
		rec.Violate("verify-panicked", attrs, fmt.Sprintf("%v | %s", panicked, detail()), nil)
	case !o.truth && err == nil:
		rec.Violate("false-claim-verified", attrs, detail(), nil)
	case o.truth && o.genuine && err != nil:
		rec.Violate("genuine-proof-rejected", attrs, err.Error()+" | "+detail(), nil)
	}
}

// ---------------------------------------------------------------- BSC / ETH

func c08Eth(rec *mon.Recorder, rng *rand.Rand, seed int64, nClaims int) {
	net := vnet.New(seed, rng, []string{"alphachain"}, 1, 2)
	c := net.Chains[0]
	ck := c.App.TIBCKeeper.ClientKeeper
	var contract common.Address
	rng.Read(contract[:])
	// three heights, three worlds
	heights := []uint64{100 + uint64(rng.Intn(50)), 0, 0}
	heights[1] = heights[0] + 1 + uint64(rng.Intn(30))
	heights[2] = heights[1] + 1 + uint64(rng.Intn(30))
	worlds := make([]*model.EthWorld, 3)
	var keys []claimKey
	content := map[string][]byte{}
	for i := 0; i < 3; i++ {
		n := 1 + rng.Intn(60)
		if rng.Intn(4) == 0 {
			n = 150 + rng.Intn(60)
		}
		for j := 0; j < n; j++ {
			k := randKey(rng)
			keys = append(keys, k)
			content[string(k.path())] = model.Word(randValue(rng, k.kind))
		}
		// a few deletions between heights
		if i > 0 {
			for p := range content {
				if rng.Intn(10) == 0 {
					delete(content, p)
				}
			}
		}
		cp := map[string][]byte{}
		for p, v := range content {
			cp[p] = v
		}
		worlds[i] = model.NewEthWorld(contract, cp, rng.Intn(20))
	}
	nVals := 1 + rng.Intn(21)
	latest := heights[2] + uint64(rng.Intn(40))
	if rng.Intn(2) == 0 {
		// the newest proven height sits exactly at, one before or one after the BSC confirmation bound floor(2n/3)+1
		latest = heights[2] + uint64(2*nVals/3+1) + uint64(rng.Intn(3)) - 1
	}
	for _, typ := range []string{exported.ETH, exported.BSC} {
		name := "ethlikechain"
		ctx, _ := c.Ctx().CacheContext()
		var cs exported.ClientState
		var delay uint64
		if typ == exported.ETH {
			delay = uint64(rng.Intn(12))
			if rng.Intn(2) == 0 {
				// the configured delay sits at / around the distance of one of the proven heights
				if d := int64(latest-heights[rng.Intn(3)]) + int64(rng.Intn(3)) - 1; d >= 0 {
					delay = uint64(d)
				}
			}
			cs = &ethtypes.ClientState{Header: ethtypes.Header{Height: clienttypes.NewHeight(0, latest)}, ChainId: 1, ContractAddress: contract[:], TrustingPeriod: 1 << 40, BlockDelay: delay}
			for i, h := range heights {
				hh := clienttypes.NewHeight(0, h)
				ck.SetClientConsensusState(ctx, name, hh, &ethtypes.ConsensusState{Timestamp: uint64(ctx.BlockTime().Unix()), Number: hh, Root: worlds[i].Root[:]})
			}
		} else {
			vals := make([][]byte, nVals)
			for i := range vals {
				vals[i] = make([]byte, 20)
				rng.Read(vals[i])
			}
			bcs := &bsctypes.ClientState{Header: bsctypes.Header{Height: clienttypes.NewHeight(0, latest)}, ChainId: 56, Epoch: 200, BlockInteval: 3, Validators: vals, ContractAddress: contract[:], TrustingPeriod: 1 << 40}
			delay = uint64(2*nVals/3 + 1) // the BSC rule, written here independently: floor(2n/3)+1 blocks on top of the proven one
			cs = bcs
			for i, h := range heights {
				hh := clienttypes.NewHeight(0, h)
				ck.SetClientConsensusState(ctx, name, hh, &bsctypes.ConsensusState{Timestamp: uint64(ctx.BlockTime().Unix()), Number: hh, Root: worlds[i].Root[:]})
			}
		}
		ck.SetClientState(ctx, name, cs)
		store := ck.ClientStore(ctx, name)
		for n := 0; n < nClaims; n++ {
			if rec.Unlisted() > 4 {
				return
			}
			wi := rng.Intn(3)
			w := worlds[wi]
			k := keys[rng.Intn(len(keys))]
			if rng.Intn(5) == 0 {
				k = randKey(rng) // probably absent
			}
			stored, present := w.Storage[string(k.path())]
			// claimed value
			var value []byte
			vcase := "equal"
			switch {
			case present && rng.Intn(2) == 0:
				value = trimToKind(stored, k.kind)
			case present && rng.Intn(4) == 0:
				// differs from the stored word only in its high-order bytes (where a short stored value has leading zeros)
				value = trimToKind(stored, k.kind)
				value[rng.Intn(len(value)/2)] ^= byte(1 + rng.Intn(255))
				vcase = "high-order-bytes-changed"
			case rng.Intn(3) == 0:
				// value of the same key at another height
				if o, ok := worlds[(wi+1)%3].Storage[string(k.path())]; ok {
					value = trimToKind(o, k.kind)
					vcase = "other-height-value"
				} else {
					value = randValue(rng, k.kind)
					vcase = "random"
				}
			default:
				value = randValue(rng, k.kind)
				vcase = "random"
			}
			h := heights[wi]
			side := "ok"
			proofWorld := w
			// side conditions
			switch rng.Intn(10) {
			case 0:
				h = latest + 1 + uint64(rng.Intn(5))
				side = "height-above-latest"
			case 1:
				h = heights[wi] + 1
				if h == heights[(wi+1)%3] {
					h += 1000
				}
				side = "no-consensus-state"
			}
			if side == "ok" && latest-h < delay {
				side = "delay-not-elapsed"
			}
			if side == "ok" && latest-h == delay {
				side = "ok-delay-exactly-elapsed"
			}
			truth := present && bytes.Equal(model.Word(value), stored) && (side == "ok" || side == "ok-delay-exactly-elapsed")
			// proof variant
			p := proofWorld.Prove(k.path())
			variant, genuine := "genuine", true
			switch rng.Intn(12) {
			case 0:
				o := keys[rng.Intn(len(keys))]
				if string(o.path()) != string(k.path()) {
					p = w.Prove(o.path())
					variant, genuine = "proof-of-other-key", false
				}
			case 1:
				o := keys[rng.Intn(len(keys))]
				if string(o.path()) != string(k.path()) {
					q := w.Prove(o.path())
					p.StorageProof[0].Proof = q.StorageProof[0].Proof // right key label, foreign nodes
					variant, genuine = "foreign-nodes-under-right-key", false
				}
			case 2:
				p = worlds[(wi+1)%3].Prove(k.path())
				variant, genuine = "proof-from-other-height", false
			case 3:
				if len(p.StorageProof[0].Proof) > 0 {
					p.StorageProof[0].Proof = p.StorageProof[0].Proof[:len(p.StorageProof[0].Proof)-1]
					variant, genuine = "storage-proof-truncated", false
				}
			case 4:
				rng.Shuffle(len(p.StorageProof[0].Proof), func(i, j int) {
					p.StorageProof[0].Proof[i], p.StorageProof[0].Proof[j] = p.StorageProof[0].Proof[j], p.StorageProof[0].Proof[i]
				})
				variant, genuine = "nodes-shuffled", false
			case 5:
				var o common.Address
				rng.Read(o[:])
				p.Address = o.Hex()
				variant, genuine = "other-contract-address", false
			case 6:
				p.Balance = "0x1"
				variant, genuine = "account-field-altered", false
			case 7:
				if len(p.AccountProof) > 0 {
					p.AccountProof = p.AccountProof[:len(p.AccountProof)-1]
					variant, genuine = "account-proof-truncated", false
				}
			case 8:
				p.StorageProof = append(p.StorageProof, p.StorageProof[0])
				variant, genuine = "two-storage-proofs", false
			case 9:
				// the same storage key spelled as another hex quantity (an extra leading zero byte, or leading zeros
				// stripped as JSON-RPC quantities are): still the genuine proof of the same slot
				lab := strings.TrimPrefix(p.StorageProof[0].Key, "0x")
				if rng.Intn(2) == 0 || !strings.HasPrefix(lab, "00") {
					p.StorageProof[0].Key = "0x00" + lab
				} else {
					p.StorageProof[0].Key = "0x" + strings.TrimLeft(lab, "0")
					if len(p.StorageProof[0].Key)%2 == 1 {
						p.StorageProof[0].Key = "0x0" + p.StorageProof[0].Key[2:]
					}
				}
				variant = "key-spelled-as-other-hex-quantity"
			}
			proof := p.JSON()
			if rng.Intn(40) == 0 {
				proof = proof[:len(proof)/2]
				variant, genuine = "json-truncated", false
			}
			err, pan := callVerify(cs, ctx, store, c, clienttypes.NewHeight(0, h), proof, k, value)
			o := c08outcome{typ: typ, kind: k.kind, variant: variant + "/" + vcase, side: side, truth: truth, genuine: genuine}
			c08Judge(rec, o, err, pan, func() string {
				return fmt.Sprintf("%s claim %s %s>%s#%d value %x at height %d (latest %d, delay %d blocks, key present=%v stored=%x)", typ, k.kind, k.src, k.dst, k.seq, value, h, latest, delay, present, stored)
			})
			if len(rec.Samples()) < 2 && truth && genuine {
				rec.Sample(map[string]any{"client": typ, "claim": fmt.Sprintf("%s %s>%s#%d", k.kind, k.src, k.dst, k.seq), "value": fmt.Sprintf("%x", value), "height": h, "latest": latest, "delay_blocks": delay, "verified": err == nil, "storage_entries": len(w.Storage)})
			}
		}
	}
}

func trimToKind(word []byte, kind string) []byte {
	if kind == "clean" {
		return append([]byte{}, word[24:]...)
	}
	return append([]byte{}, word...)
}

// ---------------------------------------------------------------- Tendermint

func c08TM(rec *mon.Recorder, rng *rand.Rand, seed int64, nClaims int) {
	net := vnet.New(seed, rng, []string{"alphachain", "bravochain"}, 2, 2)
	A, B := net.Chains[0], net.Chains[1]
	delay := time.Duration(rng.Intn(120)) * time.Second
	cfg := vnet.DefaultClientCfg
	cfg.TimeDelay = uint64(delay)
	if err := net.CreateClient(A, B, cfg); err != nil {
		rec.Inconclusive("setup: " + err.Error())
		return
	}
	pk := B.App.TIBCKeeper.PacketKeeper
	var keys []claimKey
	content := map[string][]byte{}
	var heights []int64
	snaps := []map[string][]byte{}
	for i := 0; i < 3; i++ {
		n := 1 + rng.Intn(40)
		var batch []claimKey
		for j := 0; j < n; j++ {
			batch = append(batch, randKey(rng))
		}
		var dels []string
		if i > 0 {
			for p := range content {
				if rng.Intn(10) == 0 && !bytes.HasPrefix([]byte(p), []byte("clean/")) {
					dels = append(dels, p)
				}
			}
		}
		vals := map[string][]byte{}
		for _, k := range batch {
			vals[string(k.path())] = randValue(rng, k.kind)
		}
		B.Exec(func(ctx sdk.Context) error {
			st := ctx.KVStore(B.App.GetKey("tibc"))
			for _, k := range batch {
				v := vals[string(k.path())]
				switch k.kind {
				case "commitment":
					pk.SetPacketCommitment(ctx, k.src, k.dst, k.seq, v)
				case "ack":
					pk.SetPacketAcknowledgement(ctx, k.src, k.dst, k.seq, v)
				default:
					pk.SetCleanPacketCommitment(ctx, k.src, k.dst, sdk.BigEndianToUint64(v))
				}
			}
			for _, p := range dels {
				st.Delete([]byte(p))
			}
			return nil
		})
		for _, k := range batch {
			keys = append(keys, k)
			content[string(k.path())] = vals[string(k.path())]
		}
		for _, p := range dels {
			delete(content, p)
		}
		if r := net.UpdateClient(A, B); !r.OK() {
			rec.Inconclusive("setup update: " + r.Log)
			return
		}
		heights = append(heights, int64(vnet.ClientHeight(A, B.Name).RevisionHeight))
		cp := map[string][]byte{}
		for p, v := range content {
			cp[p] = v
		}
		snaps = append(snaps, cp)
		net.Advance(time.Duration(rng.Intn(200)) * time.Second)
	}
	latest := heights[2]
	ck := A.App.TIBCKeeper.ClientKeeper
	base := A.Ctx()
	csI, _ := ck.GetClientState(base, B.Name)
	cs := csI.(*ibctm.ClientState)
	store := ck.ClientStore(base, B.Name)
	rev := clienttypes.ParseChainID(B.Name)
	for n := 0; n < nClaims; n++ {
		if rec.Unlisted() > 4 {
			return
		}
		wi := rng.Intn(3)
		k := keys[rng.Intn(len(keys))]
		if rng.Intn(5) == 0 {
			k = randKey(rng)
		}
		h := heights[wi]
		// ground truth straight from B's store at that version (must agree with the generator's snapshot)
		gt, present := B.StateAt("tibc", h-1, k.path())
		if sv, ok := snaps[wi][string(k.path())]; ok != present || (ok && !bytes.Equal(sv, gt)) {
			rec.Inconclusive("generator snapshot disagrees with the real store")
			return
		}
		var value []byte
		vcase := "equal"
		switch {
		case present && rng.Intn(2) == 0:
			value = append([]byte{}, gt...)
		case present && rng.Intn(4) == 0:
			value = append([]byte{}, gt...)
			value[rng.Intn(len(value)/2)] ^= byte(1 + rng.Intn(255))
			vcase = "high-order-bytes-changed"
		case rng.Intn(3) == 0:
			if o, ok := snaps[(wi+1)%3][string(k.path())]; ok {
				value, vcase = append([]byte{}, o...), "other-height-value"
			} else {
				value, vcase = randValue(rng, k.kind), "random"
			}
		default:
			value, vcase = randValue(rng, k.kind), "random"
		}
		side := "ok"
		ph := h
		switch rng.Intn(10) {
		case 0:
			ph = latest + 1 + int64(rng.Intn(4))
			side = "height-above-latest"
		case 1:
			ph = h - 1
			if ph == heights[0] || ph == heights[1] {
				ph = 1
			}
			side = "no-consensus-state"
		}
		// block time relative to processed time + delay
		now := base.BlockTime()
		if side == "ok" {
			pt, ok := ibctm.GetProcessedTime(store, clienttypes.NewHeight(rev, uint64(ph)))
			if !ok {
				rec.Inconclusive("no processed time for a stored height")
				return
			}
			bound := time.Unix(0, int64(pt)+int64(delay)).UTC()
			switch rng.Intn(4) {
			case 0:
				now, side = bound, "ok-delay-exactly-elapsed"
			case 1:
				now, side = bound.Add(-time.Nanosecond), "delay-not-elapsed"
			case 2:
				now, side = bound.Add(time.Nanosecond), "ok-delay-1ns-past"
			default:
				if now.Before(bound) {
					now = bound.Add(time.Duration(rng.Intn(1000)) * time.Second)
				}
			}
		}
		truth := present && bytes.Equal(value, gt) && (side == "ok" || side == "ok-delay-exactly-elapsed" || side == "ok-delay-1ns-past")
		proof, _, err0 := B.QueryProof(k.path(), h)
		variant, genuine := "genuine", err0 == nil
		switch rng.Intn(11) {
		case 0:
			o := keys[rng.Intn(len(keys))]
			if string(o.path()) != string(k.path()) {
				proof, _, _ = B.QueryProof(o.path(), h)
				variant, genuine = "proof-of-other-key", false
			}
		case 1:
			proof, _, _ = B.QueryProof(k.path(), heights[(wi+1)%3])
			variant, genuine = "proof-from-other-height", false
		case 2:
			if len(proof) > 10 {
				proof = proof[:len(proof)-1-rng.Intn(len(proof)/2)]
				variant, genuine = "truncated", false
			}
		case 3:
			var mp commitmenttypes.MerkleProof
			if A.App.AppCodec().Unmarshal(proof, &mp) == nil && len(mp.Proofs) == 2 {
				mp.Proofs[0], mp.Proofs[1] = mp.Proofs[1], mp.Proofs[0]
				proof, _ = A.App.AppCodec().Marshal(&mp)
				variant, genuine = "sub-proofs-swapped", false
			}
		case 4:
			var mp commitmenttypes.MerkleProof
			if A.App.AppCodec().Unmarshal(proof, &mp) == nil && len(mp.Proofs) == 2 {
				mp.Proofs = mp.Proofs[:1]
				proof, _ = A.App.AppCodec().Marshal(&mp)
				variant, genuine = "store-proof-dropped", false
			}
		case 5:
			if len(proof) > 10 {
				proof = append([]byte{}, proof...)
				proof[rng.Intn(len(proof))] ^= 1 << uint(rng.Intn(8))
				variant, genuine = "bitflip", false
			}
		}
		ctx := base.WithBlockTime(now)
		err, pan := callVerify(cs, ctx, store, A, clienttypes.NewHeight(rev, uint64(ph)), proof, k, value)
		o := c08outcome{typ: exported.Tendermint, kind: k.kind, variant: variant + "/" + vcase, side: side, truth: truth, genuine: genuine}
		c08Judge(rec, o, err, pan, func() string {
			return fmt.Sprintf("tendermint claim %s %s>%s#%d value %x at height %d (latest %d, delay %s, now %s, present=%v stored=%x)", k.kind, k.src, k.dst, k.seq, value, ph, latest, delay, now, present, gt)
		})
		if len(rec.Samples()) < 4 && truth && genuine && n%7 == 0 {
			rec.Sample(map[string]any{"client": exported.Tendermint, "claim": fmt.Sprintf("%s %s>%s#%d", k.kind, k.src, k.dst, k.seq), "value": fmt.Sprintf("%x", value), "height": ph, "delay": delay.String(), "side": side, "verified": err == nil})
		}
	}
}

var _ = world.MockPort
