package checks

import (
	"fmt"
	"math/big"
	"math/rand"

	"github.com/ethereum/go-ethereum/common"
	"github.com/ethereum/go-ethereum/core/types"

	clienttypes "github.com/bianjieai/tibc-go/modules/tibc/core/02-client/types"
	bsctypes "github.com/bianjieai/tibc-go/modules/tibc/light-clients/08-bsc/types"
	ethtypes "github.com/bianjieai/tibc-go/modules/tibc/light-clients/09-eth/types"

	"verif/model"
	"verif/vnet"
)

// bscFeed: a BSC client on a real chain (created by governance, updated through MsgUpdateClient) fed from a synthetic chain.
type bscFeed struct {
	g    *bscGen
	p    *model.Parlia
	name string
}

func newBscFeed(host *vnet.Chain, rng *rand.Rand, seed int64, name string) (*bscFeed, error) {
	g := newBscGen(rng, seed)
	cur, pend := g.randSet(5), g.randSet(7)
	gen := model.PHeader{Number: g.epoch * 4, Time: 1_600_000_000, GasLimit: 30_000_000, Difficulty: 2,
		UncleHash: common.HexToHash("0x1dcc4de8dec75d7aab85b567b6ccd41ad312451b948a7413f0a142fd40d49347"), Extra: extraWith(pend, 0), Coinbase: cur[0]}
	gen.Seal(g.chainID, g.byAddr[cur[0]])
	p := model.NewParlia(g.chainID, g.epoch, gen, cur, pend)
	bcs := &bsctypes.ClientState{Header: *toBscHeader(&gen), ChainId: g.chainID, Epoch: g.epoch, BlockInteval: 3, Validators: addrBytes(p.Validators), ContractAddress: make([]byte, 20), TrustingPeriod: 1 << 40}
	m, _ := clienttypes.NewMsgCreateClient(name, bcs, &bsctypes.ConsensusState{Timestamp: gen.Time, Number: clienttypes.NewHeight(0, gen.Number), Root: gen.Root[:]}, host.GovAddr)
	m.ChainName, m.Title, m.Description = name, "t", "d"
	if r := host.GovExec(m); !r.OK() {
		return nil, fmt.Errorf("create bsc client: %s", r.Log)
	}
	if r := host.GovExec(&clienttypes.MsgRegisterRelayer{Title: "t", Description: "d", ChainName: name, Relayers: []string{host.Relayer.Addr.String()}, Authority: host.GovAddr}); !r.OK() {
		return nil, fmt.Errorf("register relayer: %s", r.Log)
	}
	return &bscFeed{g: g, p: p, name: name}, nil
}

// next builds the next valid header (nil if no validator is eligible).
func (f *bscFeed) next(rng *rand.Rand) (*model.PHeader, common.Address) {
	p := f.p
	n := uint64(len(p.Validators))
	num := p.Latest.Number + 1
	var elig []common.Address
	for _, v := range p.Validators {
		ok := true
		for seen, s := range p.Recents {
			if s == v && seen+n/2+1 > num {
				ok = false
			}
		}
		for k := uint64(1); k <= n/2; k++ {
			if s, has := p.History[num-k]; has && s == v {
				ok = false
			}
		}
		if ok {
			elig = append(elig, v)
		}
	}
	if len(elig) == 0 {
		return nil, common.Address{}
	}
	signer := elig[rng.Intn(len(elig))]
	h := f.g.child(p, signer, f.g.randSet(1+rng.Intn(9)))
	return &h, signer
}

func (f *bscFeed) deliver(c *vnet.Chain, h *model.PHeader) *vnet.Result {
	um, _ := clienttypes.NewMsgUpdateClient(f.name, toBscHeader(h), c.Relayer.Addr)
	return c.Deliver(c.Relayer, um)
}

// ethFeed: an ETH client on a real chain fed from a synthetic header tree (ethash computation skipped by hook H2).
type ethFeed struct {
	tree  *model.EthTree
	nodes []*types.Header
	name  string
}

func newEthFeed(host *vnet.Chain, rng *rand.Rand, name string) (*ethFeed, error) {
	root := &types.Header{UncleHash: types.EmptyUncleHash, Number: big.NewInt(13_000_000), Time: uint64(host.Net.Now.Unix()) - 5000,
		Difficulty: big.NewInt(9_000_000_000_000_000), GasLimit: 30_000_000, GasUsed: 15_000_000, BaseFee: big.NewInt(50_000_000_000)}
	rng.Read(root.Root[:])
	ecs := &ethtypes.ClientState{Header: *toTibcEth(root), ChainId: 1, ContractAddress: make([]byte, 20), TrustingPeriod: 1 << 40, BlockDelay: 1}
	em, _ := clienttypes.NewMsgCreateClient(name, ecs, &ethtypes.ConsensusState{Timestamp: root.Time, Number: clienttypes.NewHeight(0, root.Number.Uint64()), Root: root.Root[:]}, host.GovAddr)
	em.ChainName, em.Title, em.Description = name, "t", "d"
	if r := host.GovExec(em); !r.OK() {
		return nil, fmt.Errorf("create eth client: %s", r.Log)
	}
	if r := host.GovExec(&clienttypes.MsgRegisterRelayer{Title: "t", Description: "d", ChainName: name, Relayers: []string{host.Relayer.Addr.String()}, Authority: host.GovAddr}); !r.OK() {
		return nil, fmt.Errorf("register relayer: %s", r.Log)
	}
	return &ethFeed{tree: model.NewEthTree(root), nodes: []*types.Header{root}, name: name}, nil
}

func (f *ethFeed) deliver(c *vnet.Chain, h *types.Header) *vnet.Result {
	um, _ := clienttypes.NewMsgUpdateClient(f.name, toTibcEth(h), c.Relayer.Addr)
	return c.Deliver(c.Relayer, um)
}
