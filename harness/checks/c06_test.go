package checks

import (
	"fmt"
	"math/rand"
	"reflect"
	"strings"
	"testing"

	"verif/mon"
	"verif/vnet"
	"verif/world"
)

type c06hop struct{ from, to, relay int } // chain indexes; relay -1 = direct

// route shapes over 4 chains: 1-3 hops, every hop direct or through a relay chain that is not an endpoint of the hop
func c06Routes() [][]c06hop {
	var out [][]c06hop
	paths := [][]int{{0, 1}, {0, 1, 2}, {0, 1, 2, 3}, {0, 2, 1}, {0, 1, 0, 2}}
	for _, p := range paths {
		n := len(p) - 1
		for mask := 0; mask < 1<<n; mask++ {
			var r []c06hop
			for i := 0; i < n; i++ {
				h := c06hop{p[i], p[i+1], -1}
				if mask&(1<<i) != 0 {
					for z := 0; z < 4; z++ {
						if z != h.from && z != h.to {
							h.relay = z
							break
						}
					}
				}
				r = append(r, h)
			}
			out = append(out, r)
		}
	}
	return out
}

func routeStr(r []c06hop) string {
	var sb strings.Builder
	for _, h := range r {
		if h.relay >= 0 {
			fmt.Fprintf(&sb, "%d-(%d)->%d ", h.from, h.relay, h.to)
		} else {
			fmt.Fprintf(&sb, "%d->%d ", h.from, h.to)
		}
	}
	return strings.TrimSpace(sb.String())
}

type c06class struct{ kind, class, id string }

func classKind(c string) string {
	switch {
	case strings.HasPrefix(c, "nft/"):
		return "path-like"
	case strings.Contains(c, "/"):
		return "contains-slash"
	case strings.HasPrefix(c, "nft"):
		return "nft-prefixed"
	}
	return "plain"
}

// holdings of one asset family on a chain, user accounts only, as comparable strings
func nftOf(c *vnet.Chain, owner string) []string {
	var out []string
	for _, h := range world.NftSnapshot(c) {
		if h.Owner == owner {
			out = append(out, h.Class+"|"+h.ID)
		}
	}
	return out
}

func TestC06(t *testing.T) {
	rec := mon.New("C06", "fault_enumeration",
		"enumeration: {NFT class-id kinds: plain, nft-prefixed, containing '/', spelling a voucher path} x {token ids: plain, containing '/'} and MT with amounts {1, 7, 2^63, 2^64-1} x all route shapes of 1-3 hops over 4 chains with every hop direct or relayed x scripts {failure at hop k by malformed receiver or by a relay chain refusing the route, then refund; full round trip hop by hop}; "+
			"oracle = comparison of real holdings snapshots. distinct = distinct (asset kind, class kind, route shape, script, failure point) tuples")
	rec.Require("refund-checked", "roundtrip-checked")
	routes := c06Routes()
	classes := []c06class{
		{"nft", "kitty", "tokone"}, {"nft", "nftart", "tokone"}, {"nft", "kitty", "id/with/slash"},
		{"nft", "art/paint", "tokone"}, {"nft", "a/b/c", "tokone"}, {"nft", "nft/x", "tokone"}, {"nft", "nft/alphachain/bravochain/kitty", "tokone"},
		{"mt", "", "1"}, {"mt", "", "7"}, {"mt", "", "9223372036854775808"}, {"mt", "", "18446744073709551615"},
	}
	type job struct {
		route  []c06hop
		cl     c06class
		script string // roundtrip | fail-recv | fail-relay
		k      int    // failing hop
	}
	var jobs []job
	for _, r := range routes {
		for _, cl := range classes {
			jobs = append(jobs, job{r, cl, "roundtrip", 0})
			for k := range r {
				jobs = append(jobs, job{r, cl, "fail-recv", k})
				if r[k].relay >= 0 {
					jobs = append(jobs, job{r, cl, "fail-relay", k})
				}
			}
		}
	}
	if mon.Tier() == "quick" {
		// the quick tier takes a seeded third of the table; thorough runs all of it (x4 key seeds)
		rng := rand.New(rand.NewSource(mon.Seed()))
		rng.Shuffle(len(jobs), func(i, j int) { jobs[i], jobs[j] = jobs[j], jobs[i] })
		jobs = jobs[:len(jobs)/3]
	}
	rec.Extra("table_size", len(jobs))
	rec.Extra("exhaustive", mon.Tier() == "thorough")
	histories(rec, len(jobs), func(i int, rng *rand.Rand) (*world.World, func()) {
		j := jobs[i]
		net := world.NewTokNetwork(mon.Seed()*31337+int64(i), rng, 4)
		w := world.New(fmt.Sprintf("c06-%d", i), net, rng)
		return w, func() { c06Run(w, rng, rec, j.route, j.cl, j.script, j.k) }
	})
	setExit(rec.Finish())
}

type asset struct {
	kind      string
	class, id string
	amount    uint64
}

// relayAll drains every enabled relayer action.
func relayAll(w *world.World, rng *rand.Rand) {
	for i := 0; i < 60 && !w.Stop; i++ {
		en := w.EnabledRelays()
		if len(en) == 0 {
			return
		}
		w.Relay(en[rng.Intn(len(en))])
	}
}

func c06Run(w *world.World, rng *rand.Rand, rec *mon.Recorder, route []c06hop, cl c06class, script string, failK int) {
	cs := w.Net.Chains
	origin := cs[route[0].from]
	holder := origin.Accounts[1]
	as := asset{kind: cl.kind}
	ck := "mt"
	if cl.kind == "nft" {
		ck = classKind(cl.class)
		as.class, as.id = cl.class, cl.id
		if r := w.IssueNftClass(origin, holder, as.class); !r.OK() {
			rec.Inconclusive("class rejected by the NFT module: " + as.class)
			return
		}
		if r := w.MintNft(origin, holder, as.class, as.id, holder.Addr); !r.OK() {
			rec.Inconclusive("mint failed: " + r.Log)
			return
		}
	} else {
		fmt.Sscan(cl.id, &as.amount)
		den, _ := w.IssueMtDenom(origin, holder, "c06mt")
		id, r := w.MintMt(origin, holder, den, "", as.amount, holder.Addr)
		if !r.OK() {
			rec.Inconclusive("mt mint failed")
			return
		}
		as.class, as.id = den, id
	}
	orig := as
	attrs := func() map[string]string {
		return map[string]string{"asset": cl.kind, "class_kind": ck, "script": script, "id_slash": fmt.Sprint(strings.Contains(cl.id, "/") && cl.kind == "nft")}
	}
	// what the current holder on chain c holds of this asset (class,id / amount)
	find := func(c *vnet.Chain, acc *vnet.Account, exclude map[string]bool) (asset, bool) {
		if as.kind == "nft" {
			for _, h := range world.NftSnapshot(c) {
				if h.Owner == acc.Addr.String() && h.ID == orig.id && !exclude[h.Class] {
					return asset{kind: "nft", class: h.Class, id: h.ID}, true
				}
			}
			return asset{}, false
		}
		bals, _ := world.MtSnapshot(c)
		for _, b := range bals {
			if b.Owner == acc.Addr.String() && b.ID == orig.id && b.Amount > 0 {
				return asset{kind: "mt", class: b.Class, id: b.ID, amount: b.Amount}, true
			}
		}
		return asset{}, false
	}
	send := func(from *vnet.Chain, acc *vnet.Account, a asset, recv string, to *vnet.Chain, relay string) bool {
		var act *world.Action
		if a.kind == "nft" {
			act = w.SendNft(from, acc, a.class, a.id, recv, to.Name, relay)
		} else {
			act = w.SendMt(from, acc, a.class, a.id, a.amount, recv, to.Name, relay)
		}
		return act.Res.OK()
	}
	snapshot := func(c *vnet.Chain, acc *vnet.Account) any {
		if as.kind == "nft" {
			return nftOf(c, acc.Addr.String())
		}
		bals, sup := world.MtSnapshot(c)
		var mine []world.MtBal
		for _, b := range bals {
			if b.Owner == acc.Addr.String() && b.Amount > 0 {
				mine = append(mine, b)
			}
		}
		return []any{mine, fmt.Sprint(sup)}
	}
	tokensOn := func(c *vnet.Chain) string {
		b, s := world.MtSnapshot(c)
		return fmt.Sprintf("%v|%v|%v", world.NftSnapshot(c), b, s)
	}

	cur := as
	curAcc := holder
	hops := route
	for i, h := range hops {
		from, to := cs[h.from], cs[h.to]
		relay := ""
		if h.relay >= 0 {
			relay = cs[h.relay].Name
		}
		recvAcc := to.Accounts[2]
		recv := recvAcc.Addr.String()
		failing := script != "roundtrip" && i == failK
		if failing && script == "fail-recv" {
			recv = "malformed-receiver"
		}
		if failing && script == "fail-relay" {
			w.Net.SetRules(cs[h.relay], []string{"nobody-chain,*,*"})
		}
		before := snapshot(from, curAcc)
		destBefore := tokensOn(to)
		if !send(from, curAcc, cur, recv, to, relay) {
			// the sending chain refused the transfer: nothing left, nothing to refund or restore
			rec.Count("send-refused-by-source/"+ck, 1)
			return
		}
		relayAll(w, rng)
		if failing {
			rec.Judge("refund", cl.kind, ck, routeStr(route), script, i, strings.Contains(cl.id, "/"))
			rec.Count("refund-checked", 1)
			after := snapshot(from, curAcc)
			a := attrs()
			a["hop"] = fmt.Sprint(i)
			if !reflect.DeepEqual(before, after) {
				rec.Violate("refund-not-exact", a, fmt.Sprintf("route %s, failing hop %d: sender held %v before the send and %v after the error acknowledgement was processed", routeStr(route), i, before, after), w.Witness(14))
				return
			}
			if tokensOn(to) != destBefore {
				rec.Violate("token-exists-on-receiving-side-after-failure", a, routeStr(route), w.Witness(14))
			}
			return
		}
		nxt, ok := find(to, recvAcc, nil)
		if !ok {
			rec.Violate("transfer-not-delivered", attrs(), fmt.Sprintf("route %s hop %d: receiver does not hold the asset", routeStr(route), i), w.Witness(14))
			return
		}
		cur, curAcc = nxt, recvAcc
	}
	if script != "roundtrip" {
		return
	}
	// return hop by hop
	for i := len(hops) - 1; i >= 0; i-- {
		h := hops[i]
		from, to := cs[h.to], cs[h.from]
		relay := ""
		if h.relay >= 0 {
			relay = cs[h.relay].Name
		}
		recvAcc := to.Accounts[3]
		if !send(from, curAcc, cur, recvAcc.Addr.String(), to, relay) {
			rec.Violate("return-leg-refused", attrs(), fmt.Sprintf("route %s: sending %s/%s back over hop %d failed", routeStr(route), cur.class, cur.id, i), w.Witness(14))
			return
		}
		relayAll(w, rng)
		nxt, ok := find(to, recvAcc, nil)
		if !ok {
			a := attrs()
			rec.Judge("roundtrip", cl.kind, ck, routeStr(route), "lost", strings.Contains(cl.id, "/"))
			rec.Count("roundtrip-checked", 1)
			rec.Violate("roundtrip-not-restored", a, fmt.Sprintf("route %s: after the return over hop %d the receiver on %s holds nothing of the asset", routeStr(route), i, to.Name), w.Witness(14))
			return
		}
		cur, curAcc = nxt, recvAcc
	}
	rec.Judge("roundtrip", cl.kind, ck, routeStr(route), "returned", strings.Contains(cl.id, "/"))
	rec.Count("roundtrip-checked", 1)
	if cur.class != orig.class || cur.id != orig.id || (as.kind == "mt" && cur.amount != orig.amount) {
		rec.Violate("roundtrip-not-restored", attrs(), fmt.Sprintf("route %s: sent %s/%s x%d, final receiver on the origin chain holds %s/%s x%d", routeStr(route), orig.class, orig.id, orig.amount, cur.class, cur.id, cur.amount), w.Witness(14))
		return
	}
	// every intermediate voucher is gone
	for _, c := range cs {
		for _, h := range world.NftSnapshot(c) {
			if as.kind == "nft" && h.ID == orig.id && !(c == origin && h.Class == orig.class) {
				rec.Violate("intermediate-voucher-survives", attrs(), fmt.Sprintf("route %s: %s still has %s/%s owned by %s", routeStr(route), c.Name, h.Class, h.ID, h.Owner), w.Witness(14))
				return
			}
		}
		if as.kind == "mt" {
			bals, sup := world.MtSnapshot(c)
			for k, s := range sup {
				if k[1] == orig.id && !(c == origin && k[0] == orig.class) && s != 0 {
					rec.Violate("intermediate-voucher-survives", attrs(), fmt.Sprintf("route %s: %s still has supply %d of %v", routeStr(route), c.Name, s, k), w.Witness(14))
					return
				}
			}
			for _, b := range bals {
				if b.ID == orig.id && b.Owner == world.MtEscrow.String() && b.Amount != 0 {
					rec.Violate("escrow-not-emptied-by-round-trip", attrs(), fmt.Sprintf("%s escrow still holds %d", c.Name, b.Amount), w.Witness(14))
					return
				}
			}
		}
	}
}
