package checks

import (
	"bytes"
	"encoding/json"
	"fmt"
	"math/big"
	"math/rand"
	"os"
	"sync"
	"testing"
	"time"

	sdk "github.com/cosmos/cosmos-sdk/types"
	"github.com/ethereum/go-ethereum/common"
	"github.com/ethereum/go-ethereum/core/types"

	clienttypes "github.com/bianjieai/tibc-go/modules/tibc/core/02-client/types"
	ethtypes "github.com/bianjieai/tibc-go/modules/tibc/light-clients/09-eth/types"

	"verif/model"
	"verif/mon"
	"verif/vnet"
)

func toTibcEth(h *types.Header) *ethtypes.Header {
	bf := "0"
	if h.BaseFee != nil {
		bf = h.BaseFee.String()
	}
	d := "0"
	if h.Difficulty != nil {
		d = h.Difficulty.String()
	}
	return &ethtypes.Header{ParentHash: h.ParentHash[:], UncleHash: h.UncleHash[:], Coinbase: h.Coinbase[:], Root: h.Root[:], TxHash: h.TxHash[:], ReceiptHash: h.ReceiptHash[:],
		Bloom: h.Bloom[:], Difficulty: d, Height: clienttypes.NewHeight(0, h.Number.Uint64()), GasLimit: h.GasLimit, GasUsed: h.GasUsed, Time: h.Time,
		Extra: append([]byte{}, h.Extra...), MixDigest: h.MixDigest[:], Nonce: h.Nonce.Uint64(), BaseFee: bf}
}

func fromRecorded(e *ethtypes.EthHeader) *types.Header {
	return &types.Header{ParentHash: e.ParentHash, UncleHash: e.UncleHash, Coinbase: e.Coinbase, Root: e.Root, TxHash: e.TxHash, ReceiptHash: e.ReceiptHash, Bloom: e.Bloom,
		Difficulty: e.Difficulty, Number: e.Number, GasLimit: e.GasLimit, GasUsed: e.GasUsed, Time: e.Time, Extra: e.Extra, MixDigest: e.MixDigest, Nonce: e.Nonce, BaseFee: e.BaseFee}
}

func recordedEth(rec *mon.Recorder) []*types.Header {
	var hs []*ethtypes.EthHeader
	bz, err := os.ReadFile("/repo/modules/tibc/light-clients/09-eth/types/testdata/update_headers.json")
	if err != nil || json.Unmarshal(bz, &hs) != nil || len(hs) < 5 {
		if rec != nil {
			rec.Inconclusive("cannot read recorded ETH headers")
		}
		return nil
	}
	var out []*types.Header
	for _, h := range hs {
		out = append(out, fromRecorded(h))
	}
	return out
}

func cloneHdr(h *types.Header) *types.Header { return types.CopyHeader(h) }

// ethClient is one 09-eth client in a real client store plus its reference tree.
type ethClient struct {
	c    *vnet.Chain
	ctx  sdk.Context
	name string
	tree *model.EthTree
	now  int64
}

func newEthClient(seed int64, rng *rand.Rand, root *types.Header) (*ethClient, error) {
	net := vnet.New(seed, rng, []string{"alphachain"}, 1, 2)
	c := net.Chains[0]
	e := &ethClient{c: c, name: "eth-mainnet", tree: model.NewEthTree(root), now: int64(root.Time) + 1000}
	e.ctx = c.Ctx().WithBlockTime(time.Unix(e.now, 0).UTC())
	cs := &ethtypes.ClientState{Header: *toTibcEth(root), ChainId: 1, ContractAddress: make([]byte, 20), TrustingPeriod: 1 << 40, BlockDelay: 1}
	err := c.App.TIBCKeeper.ClientKeeper.CreateClient(e.ctx, e.name, cs, &ethtypes.ConsensusState{Timestamp: root.Time, Number: clienttypes.NewHeight(0, root.Number.Uint64()), Root: root.Root[:]})
	return e, err
}

// offer submits h (on a branch when dry) and compares with the reference; returns (accepted, consistent).
func (e *ethClient) offer(rec *mon.Recorder, kind string, h *types.Header, sealOK, dry bool, blockTime int64) (bool, bool) {
	want, clause := e.tree.Accept(h, blockTime, sealOK)
	ctx := e.ctx.WithBlockTime(time.Unix(blockTime, 0).UTC())
	write := func() {}
	if dry {
		ctx, _ = ctx.CacheContext()
	} else {
		var w func()
		ctx, w = ctx.CacheContext()
		write = w
	}
	var err error
	func() {
		defer func() {
			if r := recover(); r != nil {
				err = fmt.Errorf("panic: %v", r)
			}
		}()
		th := toTibcEth(h)
		if err = th.ValidateBasic(); err == nil {
			err = e.c.App.TIBCKeeper.ClientKeeper.UpdateClient(ctx, e.name, th)
		}
	}()
	cl := "accepted"
	if !want {
		cl = "rejected/" + clause
	}
	onFork := h.ParentHash != e.tree.Latest.Hash()
	rec.Judge(cl, kind, onFork, err == nil)
	if (err == nil) != want {
		el := ""
		if err != nil {
			el = err.Error()
		}
		depth := uint64(0)
		if p := e.tree.Nodes[h.ParentHash]; p != nil && onFork {
			// distance from the latest header down to the fork point
			a, b := e.tree.Latest, p
			for a != nil && b != nil && a.Hash() != b.Hash() {
				if a.Number.Uint64() >= b.Number.Uint64() {
					a = e.tree.Nodes[a.ParentHash]
					depth++
				} else {
					b = e.tree.Nodes[b.ParentHash]
				}
			}
		}
		rec.Violate("acceptance-differs-from-eth-rule", map[string]string{"kind": kind, "reference": cl, "got": fmt.Sprint(err == nil), "on_fork": fmt.Sprint(onFork)},
			fmt.Sprintf("header %d (parent stored %v, latest %d, fork depth %d): implementation accepted=%v (%s), reference %s", h.Number, e.tree.Nodes[h.ParentHash] != nil, e.tree.Latest.Number, depth, err == nil, el, cl),
			map[string]any{"header": toTibcEth(h), "latest": e.tree.Latest.Number, "tree_size": len(e.tree.Nodes)})
		return err == nil, false
	}
	if err == nil && !dry {
		write()
		e.tree.Add(h)
		return true, e.checkExposed(rec)
	}
	return err == nil, true
}

// checkExposed: every consensus state for a height up to the latest header is the header of that height on the branch ending at the latest header.
func (e *ethClient) checkExposed(rec *mon.Recorder) bool {
	ck := e.c.App.TIBCKeeper.ClientKeeper
	csI, _ := ck.GetClientState(e.ctx, e.name)
	cs := csI.(*ethtypes.ClientState)
	if cs.Header.Hash() != e.tree.Latest.Hash() {
		rec.Violate("latest-header-not-the-accepted-one", nil, fmt.Sprintf("client latest %d", cs.Header.Height.RevisionHeight), nil)
		return false
	}
	top := e.tree.Latest.Number.Uint64()
	for n := e.tree.Root.Number.Uint64(); n <= top; n++ {
		want := e.tree.Ancestor(n)
		got, ok := ck.GetClientConsensusState(e.ctx, e.name, clienttypes.NewHeight(0, n))
		rec.Judge("exposed-state", top-n, ok)
		ec, _ := got.(*ethtypes.ConsensusState)
		if want == nil || !ok || ec == nil || !bytes.Equal(ec.Root, want.Root[:]) || ec.Timestamp != want.Time {
			rec.Violate("exposed-consensus-state-off-the-latest-branch", map[string]string{"below_tip": fmt.Sprint(top - n)},
				fmt.Sprintf("latest header %d (%s): consensus state at height %d is %v, the branch has root %x time %d", top, e.tree.Latest.Hash(), n, ec, want.Root, want.Time), nil)
			return false
		}
	}
	rec.Count("exposed-chain-checks", 1)
	return true
}

func synthChild(rng *rand.Rand, p *types.Header) *types.Header {
	h := &types.Header{ParentHash: p.Hash(), UncleHash: types.EmptyUncleHash, Number: new(big.Int).Add(p.Number, big.NewInt(1)), Time: p.Time + uint64(1+rng.Intn(30))}
	if rng.Intn(6) == 0 {
		rng.Read(h.UncleHash[:]) // a block with uncles: changes the next block's difficulty
	}
	rng.Read(h.Coinbase[:])
	rng.Read(h.Root[:])
	rng.Read(h.TxHash[:])
	rng.Read(h.ReceiptHash[:])
	rng.Read(h.MixDigest[:])
	rng.Read(h.Nonce[:])
	h.Extra = make([]byte, rng.Intn(33))
	rng.Read(h.Extra)
	lim := p.GasLimit / 1024
	delta := int64(0)
	if lim > 1 {
		delta = rng.Int63n(int64(lim)*2-1) - int64(lim) + 1
	}
	h.GasLimit = uint64(int64(p.GasLimit) + delta)
	h.GasUsed = uint64(rng.Int63n(int64(h.GasLimit) + 1))
	h.BaseFee = model.ExpectedBaseFee(p)
	h.Difficulty = model.ExpectedDifficulty(h.Time, p)
	return h
}

type ethPert struct {
	name string
	f    func(h, p *types.Header, rng *rand.Rand, now *int64) bool
}

var c18Perts = []ethPert{
	{"unknown-parent", func(h, p *types.Header, rng *rand.Rand, now *int64) bool { h.ParentHash[0] ^= 1; return true }},
	{"number+1", func(h, p *types.Header, rng *rand.Rand, now *int64) bool {
		h.Number = new(big.Int).Add(h.Number, big.NewInt(1))
		return true
	}},
	{"number-1", func(h, p *types.Header, rng *rand.Rand, now *int64) bool {
		h.Number = new(big.Int).Sub(h.Number, big.NewInt(1))
		return true
	}},
	{"time-equals-parent", func(h, p *types.Header, rng *rand.Rand, now *int64) bool {
		h.Time = p.Time
		h.Difficulty = model.ExpectedDifficulty(h.Time, p)
		return true
	}},
	{"time-before-parent", func(h, p *types.Header, rng *rand.Rand, now *int64) bool {
		h.Time = p.Time - 1
		h.Difficulty = model.ExpectedDifficulty(h.Time, p)
		return true
	}},
	{"time-at-15s-ahead", func(h, p *types.Header, rng *rand.Rand, now *int64) bool { *now = int64(h.Time) - 15; return true }},
	{"time-16s-ahead", func(h, p *types.Header, rng *rand.Rand, now *int64) bool { *now = int64(h.Time) - 16; return true }},
	{"gas-limit-at-upper-bound", func(h, p *types.Header, rng *rand.Rand, now *int64) bool {
		h.GasLimit = p.GasLimit + p.GasLimit/1024
		return true
	}},
	{"gas-limit-just-inside-upper-bound", func(h, p *types.Header, rng *rand.Rand, now *int64) bool {
		h.GasLimit = p.GasLimit + p.GasLimit/1024 - 1
		return true
	}},
	{"gas-limit-at-lower-bound", func(h, p *types.Header, rng *rand.Rand, now *int64) bool {
		h.GasLimit = p.GasLimit - p.GasLimit/1024
		if h.GasUsed > h.GasLimit {
			h.GasUsed = h.GasLimit
		}
		return true
	}},
	{"gas-used-above-limit", func(h, p *types.Header, rng *rand.Rand, now *int64) bool { h.GasUsed = h.GasLimit + 1; return true }},
	{"base-fee+1", func(h, p *types.Header, rng *rand.Rand, now *int64) bool {
		h.BaseFee = new(big.Int).Add(h.BaseFee, big.NewInt(1))
		return true
	}},
	{"base-fee-1", func(h, p *types.Header, rng *rand.Rand, now *int64) bool {
		if h.BaseFee.Sign() == 0 {
			return false
		}
		h.BaseFee = new(big.Int).Sub(h.BaseFee, big.NewInt(1))
		return true
	}},
	{"difficulty+1", func(h, p *types.Header, rng *rand.Rand, now *int64) bool {
		h.Difficulty = new(big.Int).Add(h.Difficulty, big.NewInt(1))
		return true
	}},
	{"difficulty-1", func(h, p *types.Header, rng *rand.Rand, now *int64) bool {
		h.Difficulty = new(big.Int).Sub(h.Difficulty, big.NewInt(1))
		return true
	}},
	{"difficulty-for-other-time", func(h, p *types.Header, rng *rand.Rand, now *int64) bool {
		h.Difficulty = model.ExpectedDifficulty(h.Time+40, p)
		return h.Difficulty.Cmp(model.ExpectedDifficulty(h.Time, p)) != 0
	}},
	{"extra-33-bytes", func(h, p *types.Header, rng *rand.Rand, now *int64) bool { h.Extra = make([]byte, 33); return true }},
	{"other-state-root", func(h, p *types.Header, rng *rand.Rand, now *int64) bool { h.Root[0] ^= 1; return true }}, // a different, equally valid block
}

func TestC18(t *testing.T) {
	rec := mon.New("C18", "exploration",
		"(i) recorded mainnet headers with the real ethash seal check: valid children and nonce / mix-digest / field corruptions; (ii) with the build-tag hook skipping only the ethash computation: synthetic header trees grown from the recorded root by adding valid children (go-ethereum's own difficulty and EIP-1559 calculators) to random stored parents - extending the tip, forking 1-6 levels below it, switching back and forth, duplicates - and, at random nodes, every single-field perturbation of a valid child (18 kinds incl. values exactly at the 15s / gas-limit bounds); "+
			"acceptance is compared with the reference rule and after every accepted header every consensus state up to the latest header is compared with the parent-linked branch ending there. distinct = distinct (perturbation kind, reference clause, on-fork?) tuples")
	rec.Require("accepted", "rejected/seal", "rejected/duplicate", "rejected/difficulty", "rejected/eip1559", "rejected/future-time", "exposed-chain-checks", "fork-switches")
	hs := recordedEth(rec)
	if hs == nil {
		setExit(rec.Finish())
		return
	}
	seed := mon.Seed()
	// ---- (i) real seal
	ethtypes.VerifSkipSeal = false
	type realCase struct {
		name   string
		idx    int
		mut    func(h *types.Header)
		sealOK bool
	}
	cases := []realCase{
		{"recorded-child", 1, nil, true},
		{"nonce+1", 1, func(h *types.Header) { h.Nonce[7] ^= 1 }, false},
		{"mix-digest-flip", 1, func(h *types.Header) { h.MixDigest[0] ^= 1 }, false},
		{"coinbase-changed-under-recorded-seal", 1, func(h *types.Header) { h.Coinbase[0] ^= 1 }, false},
	}
	if mon.Tier() == "thorough" {
		cases = append(cases,
			realCase{"recorded-grandchild-chain", 2, nil, true},
			realCase{"state-root-changed-under-recorded-seal", 1, func(h *types.Header) { h.Root[0] ^= 1 }, false},
			realCase{"extra-changed-under-recorded-seal", 1, func(h *types.Header) { h.Extra = append([]byte{}, h.Extra...); h.Extra[0] ^= 1 }, false},
			realCase{"nonce-zero", 1, func(h *types.Header) { h.Nonce = types.BlockNonce{} }, false},
			realCase{"mix-digest-zero", 1, func(h *types.Header) { h.MixDigest = common.Hash{} }, false},
			realCase{"tx-hash-changed-under-recorded-seal", 1, func(h *types.Header) { h.TxHash[3] ^= 1 }, false},
		)
	}
	var wg sync.WaitGroup
	for i, rc := range cases {
		wg.Add(1)
		go func(i int, rc realCase) {
			defer wg.Done()
			rng := rand.New(rand.NewSource(seed + int64(i)))
			e, err := newEthClient(seed+int64(i), rng, hs[0])
			if err != nil {
				rec.Inconclusive("create eth client: " + err.Error())
				return
			}
			for j := 1; j < rc.idx; j++ {
				if acc, ok := e.offer(rec, "recorded-real-seal", hs[j], true, false, e.now); !acc || !ok {
					return
				}
			}
			h := cloneHdr(hs[rc.idx])
			if rc.mut != nil {
				rc.mut(h)
			}
			e.offer(rec, "real-seal/"+rc.name, h, rc.sealOK, false, e.now)
			rec.Count("real-seal-cases", 1)
		}(i, rc)
	}
	wg.Wait()
	// ---- (ii) synthetic trees, ethash computation skipped
	ethtypes.VerifSkipSeal = true
	defer func() { ethtypes.VerifSkipSeal = false }()
	nTrees := mon.Scale(48, 3000)
	steps := mon.Scale(40, 70)
	jobs := make(chan int)
	for wk := 0; wk < 16; wk++ {
		wg.Add(1)
		go func() {
			defer wg.Done()
			for j := range jobs {
				rng := rand.New(rand.NewSource(seed*8191 + int64(j)))
				c18Tree(rec, rng, seed*8191+int64(j), hs[0], steps)
			}
		}()
	}
	for j := 0; j < nTrees; j++ {
		jobs <- j
	}
	close(jobs)
	wg.Wait()
	setExit(rec.Finish())
}

func c18Tree(rec *mon.Recorder, rng *rand.Rand, seed int64, root *types.Header, steps int) {
	e, err := newEthClient(seed, rng, root)
	if err != nil {
		rec.Inconclusive("create eth client: " + err.Error())
		return
	}
	nodes := []*types.Header{root}
	maxH := root.Number.Uint64()
	for s := 0; s < steps; s++ {
		if rec.Unlisted() > 3 {
			return
		}
		// choose a stored parent
		var p *types.Header
		switch x := rng.Intn(10); {
		case x < 5:
			p = e.tree.Latest
		case x < 9:
			var cands []*types.Header
			for _, n := range nodes {
				if n.Number.Uint64()+6 >= maxH {
					cands = append(cands, n)
				}
			}
			p = cands[rng.Intn(len(cands))]
		default:
			p = nodes[rng.Intn(len(nodes))]
		}
		valid := synthChild(rng, p)
		now := int64(valid.Time) + int64(rng.Intn(100))
		// single-field perturbations of the valid child, on a branch
		if rng.Intn(3) == 0 {
			for _, pt := range c18Perts {
				h := cloneHdr(valid)
				pn := now
				if !pt.f(h, p, rng, &pn) {
					continue
				}
				if _, ok := e.offer(rec, pt.name, h, true, true, pn); !ok {
					return
				}
			}
		}
		// duplicate of something already stored
		if rng.Intn(6) == 0 && len(nodes) > 1 {
			d := nodes[1+rng.Intn(len(nodes)-1)]
			if _, ok := e.offer(rec, "duplicate", d, true, true, int64(d.Time)+20); !ok {
				return
			}
		}
		wasLatest := e.tree.Latest
		acc, ok := e.offer(rec, "valid-child", valid, true, false, now)
		if !ok {
			return
		}
		if acc {
			nodes = append(nodes, valid)
			if valid.Number.Uint64() > maxH {
				maxH = valid.Number.Uint64()
			}
			if valid.ParentHash != wasLatest.Hash() {
				rec.Count("fork-switches", 1)
			}
		}
		if len(rec.Samples()) < 3 && s == steps-1 {
			rec.Sample(map[string]any{"tree_nodes": len(nodes), "root": root.Number, "max_height": maxH, "latest": e.tree.Latest.Number})
		}
	}
}

// TestC18Race: real ethash verification (goroutines, caches) and synthetic trees on parallel clients under the race detector.
func TestC18Race(t *testing.T) {
	if os.Getenv("VERIF_RACE_PASS") == "" {
		t.Skip("only run by run.sh in the race pass")
	}
	rec := mon.New("C18race", "exploration", "race pass")
	hs := recordedEth(rec)
	if hs == nil {
		t.Fatal("no recorded headers")
	}
	ethtypes.VerifSkipSeal = false
	var wg sync.WaitGroup
	for i := 0; i < 3; i++ {
		wg.Add(1)
		go func(i int) {
			defer wg.Done()
			rng := rand.New(rand.NewSource(int64(i)))
			e, err := newEthClient(int64(900+i), rng, hs[0])
			if err != nil {
				return
			}
			h := cloneHdr(hs[1])
			if i == 2 {
				h.Nonce[7] ^= 1
			}
			e.offer(rec, "race/real-seal", h, i != 2, false, e.now)
		}(i)
	}
	wg.Wait()
	ethtypes.VerifSkipSeal = true
	for j := 0; j < 8; j++ {
		wg.Add(1)
		go func(j int) {
			defer wg.Done()
			rng := rand.New(rand.NewSource(int64(7000 + j)))
			c18Tree(rec, rng, int64(7000+j), hs[0], 25)
		}(j)
	}
	wg.Wait()
	ethtypes.VerifSkipSeal = false
	fmt.Printf("RACE-PASS eth accepted=%d fork_switches=%d unlisted_violations=%d\n", rec.Get("accepted"), rec.Get("fork-switches"), rec.Unlisted())
	if rec.Unlisted() > 0 {
		fmt.Println("VIOLATION property=C18 replay=race-pass:eth")
		t.Fail()
	}
}
