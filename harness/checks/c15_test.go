package checks

import (
	"fmt"
	"math/rand"
	"testing"
	"time"

	codectypes "github.com/cosmos/cosmos-sdk/codec/types"
	sdk "github.com/cosmos/cosmos-sdk/types"
	"github.com/ethereum/go-ethereum/common"

	clienttypes "github.com/bianjieai/tibc-go/modules/tibc/core/02-client/types"
	govv1beta1 "github.com/cosmos/cosmos-sdk/x/gov/types/v1beta1"

	routingtypes "github.com/bianjieai/tibc-go/modules/tibc/core/26-routing/types"
	corecli "github.com/bianjieai/tibc-go/modules/tibc/core/client/cli"
	"github.com/bianjieai/tibc-go/modules/tibc/core/exported"
	bsctypes "github.com/bianjieai/tibc-go/modules/tibc/light-clients/08-bsc/types"

	"verif/mon"
	"verif/vnet"
	"verif/world"
)

// how a request reaches the message server
type c15Signer struct {
	name string
	// route: "router" = executed through the message router (as the gov module does), "tx" = user-signed transaction
	route     string
	authority func(c *vnet.Chain) string
	acc       func(c *vnet.Chain) *vnet.Account
	isGov     bool
	// legacy: the request is a v1beta1 proposal content handed to the TIBC proposal handler, which is what the gov module's
	// legacy router does with a passed legacy proposal (after gov checked its own authority). simapp builds that router
	// but never installs it (gov's MsgExecLegacyContent dereferences a nil router there), so the handler is called the
	// way an application that does install it (SetLegacyRouter) would call it.
	legacy bool
}

// c15Legacy translates a privileged TIBC message into the legacy proposal content with the same payload.
func c15Legacy(msg sdk.Msg) govv1beta1.Content {
	switch m := msg.(type) {
	case *clienttypes.MsgCreateClient:
		return &clienttypes.CreateClientProposal{Title: m.Title, Description: m.Description, ChainName: m.ChainName, ClientState: m.ClientState, ConsensusState: m.ConsensusState}
	case *clienttypes.MsgUpgradeClient:
		return &clienttypes.UpgradeClientProposal{Title: m.Title, Description: m.Description, ChainName: m.ChainName, ClientState: m.ClientState, ConsensusState: m.ConsensusState}
	case *clienttypes.MsgRegisterRelayer:
		return &clienttypes.RegisterRelayerProposal{Title: m.Title, Description: m.Description, ChainName: m.ChainName, Relayers: m.Relayers}
	case *routingtypes.MsgSetRoutingRules:
		return &routingtypes.SetRoutingRulesProposal{Title: m.Title, Description: m.Description, Rules: m.Rules}
	}
	return nil
}

func TestC15(t *testing.T) {
	rec := mon.New("C15", "fault_enumeration",
		"ACL matrix: {create-client, upgrade-client, register-relayer, set-routing-rules} x {governance execution, router execution with a non-governance authority, user-signed tx naming itself as authority, user-signed tx forging the governance authority, registered relayer as authority} x payloads {new / existing chain name, same / other client type, garbage Any} and update-client x {relayer of this chain, relayer of another chain only, arbitrary account, nobody registered}, in registries of 0-3 clients; "+
			"oracle = expected effect from the statement vs KV diff; distinct = distinct (message, signer class, payload class, registry size, outcome)")
	rec.Require("privileged-allowed", "privileged-refused", "update-allowed", "update-refused", "create-existing-refused", "upgrade-type-refused")
	seed := mon.Seed()
	histories(rec, mon.Scale(8, 200), func(i int, rng *rand.Rand) (*world.World, func()) {
		cfg := world.DefaultPktCfg()
		cfg.NChains = 4
		cfg.FullMesh = false
		cfg.Rules = [][]string{nil}
		// chains exist, but only some clients are registered on chain 0: build the network by hand
		net := vnet.New(seed*7+int64(i), rng, world.ChainNames, 2, 4)
		w := world.New(fmt.Sprintf("acl%d", i), net, rng)
		return w, func() { aclScenario(w, rng, rec, i%4) }
	})
	setExit(rec.Finish())
}

func aclScenario(w *world.World, rng *rand.Rand, rec *mon.Recorder, nClients int) {
	cs := w.Net.Chains
	X := cs[0]
	others := cs[1:]
	for j := 0; j < nClients && j < len(others); j++ {
		if err := w.Net.CreateClient(X, others[j], vnet.DefaultClientCfg); err != nil {
			rec.Inconclusive("setup: " + err.Error())
			return
		}
	}
	gov := X.GovAddr
	user := X.Accounts[2]
	signers := []c15Signer{
		{name: "gov-exec", route: "router", authority: func(c *vnet.Chain) string { return gov }, isGov: true},
		{name: "router-user-authority", route: "router", authority: func(c *vnet.Chain) string { return user.Addr.String() }},
		{name: "router-empty-authority", route: "router", authority: func(c *vnet.Chain) string { return "" }},
		{name: "tx-user-as-authority", route: "tx", authority: func(c *vnet.Chain) string { return user.Addr.String() }, acc: func(c *vnet.Chain) *vnet.Account { return user }},
		{name: "tx-forged-gov-authority", route: "tx", authority: func(c *vnet.Chain) string { return gov }, acc: func(c *vnet.Chain) *vnet.Account { return user }},
		{name: "tx-relayer-as-authority", route: "tx", authority: func(c *vnet.Chain) string { return c.Relayer.Addr.String() }, acc: func(c *vnet.Chain) *vnet.Account { return c.Relayer }},
		// the same requests as legacy (v1beta1) proposal contents
		{name: "legacy-gov-exec", route: "legacy", authority: func(c *vnet.Chain) string { return gov }, isGov: true, legacy: true},
	}
	has := func(name string) bool { return world.HasClient(X, name) }
	clientBytes := func(name string) []byte { return X.Get("tibc", []byte("clients/"+name+"/clientState")) }

	deliver := func(s c15Signer, msg sdk.Msg, kind string) *world.Action {
		a := &world.Action{Kind: kind, On: X, Note: s.name}
		if s.legacy {
			content := c15Legacy(msg)
			rec.Count("legacy-proposal-contents", 1)
			a.Exec = func(ctx sdk.Context) error { return corecli.NewProposalHandler(X.App.TIBCKeeper)(ctx, content) }
		} else if s.route == "router" {
			a.Exec = func(ctx sdk.Context) error {
				h := X.App.MsgServiceRouter().Handler(msg)
				_, err := h(ctx, msg)
				return err
			}
		} else {
			a.Msgs = []sdk.Msg{msg}
			a.Signer = s.acc(X)
		}
		w.Do(a)
		return a
	}
	judge := func(msgKind string, s c15Signer, payload string, a *world.Action, wantEffect bool, check func() string) {
		eff := a.Res.OK() && len(a.Res.Diff) > 0
		rec.Judge("acl/"+msgKind+"/"+s.name, payload, nClients, a.Res.OK(), eff)
		if wantEffect {
			rec.Count("privileged-allowed", 1)
		} else {
			rec.Count("privileged-refused", 1)
		}
		attrs := map[string]string{"msg": msgKind, "signer": s.name, "payload": payload}
		switch {
		case !wantEffect && (a.Res.OK() || len(a.Res.Diff) > 0):
			rec.Violate("unauthorised-request-took-effect", attrs, fmt.Sprintf("ok=%v, %d keys changed: %s", a.Res.OK(), len(a.Res.Diff), a.Res.Log), w.Witness(6))
		case wantEffect && !a.Res.OK():
			rec.Violate("authorised-request-refused", attrs, a.Res.Log, w.Witness(6))
		case wantEffect && check != nil:
			if msg := check(); msg != "" {
				rec.Violate("authorised-request-wrong-effect", attrs, msg, w.Witness(6))
			}
		}
	}

	for _, s := range signers {
		if w.Stop {
			return
		}
		// ---- create client: new name / existing name / garbage Any
		var fresh *vnet.Chain
		for _, o := range others {
			if !has(o.Name) {
				fresh = o
				break
			}
		}
		if fresh != nil {
			csT, consT := vnet.NewTMClientState(fresh, vnet.DefaultClientCfg)
			m, _ := clienttypes.NewMsgCreateClient(fresh.Name, csT, consT, s.authority(X))
			m.ChainName, m.Title, m.Description = fresh.Name, "t", "d"
			a := deliver(s, m, "gov-create")
			judge("create", s, "new-name", a, s.isGov, func() string {
				if !has(fresh.Name) {
					return "client not stored"
				}
				return ""
			})
		}
		for _, o := range others {
			if has(o.Name) {
				before := clientBytes(o.Name)
				csT, consT := vnet.NewTMClientState(o, vnet.DefaultClientCfg)
				csT.TrustingPeriod /= 2 // a different client state for the same name
				m, _ := clienttypes.NewMsgCreateClient(o.Name, csT, consT, s.authority(X))
				m.ChainName, m.Title, m.Description = o.Name, "t", "d"
				a := deliver(s, m, "gov-create")
				judge("create", s, "existing-name", a, false, nil)
				rec.Count("create-existing-refused", 1)
				if string(clientBytes(o.Name)) != string(before) {
					rec.Violate("create-overwrote-client", map[string]string{"signer": s.name}, o.Name, w.Witness(6))
				}
				break
			}
		}
		{
			m := &clienttypes.MsgCreateClient{Title: "t", Description: "d", ChainName: "garbagechain", Authority: s.authority(X),
				ClientState: &codectypes.Any{TypeUrl: "/tibc.lightclients.tendermint.v1.ClientState", Value: []byte{0xff, 0x01}}, ConsensusState: &codectypes.Any{TypeUrl: "/x", Value: []byte{1}}}
			func() {
				defer func() {
					if r := recover(); r != nil {
						rec.Count("garbage-any-panicked-before-reaching-chain", 1)
					}
				}()
				a := deliver(s, m, "gov-create")
				judge("create", s, "garbage-any", a, false, nil)
			}()
		}
		// ---- upgrade client: same type / other type / unknown chain
		for _, o := range others {
			if has(o.Name) {
				csT, consT := vnet.NewTMClientState(o, vnet.DefaultClientCfg)
				a1, _ := clienttypes.PackClientState(csT)
				a2, _ := clienttypes.PackConsensusState(consT)
				m := &clienttypes.MsgUpgradeClient{Title: "t", Description: "d", ChainName: o.Name, ClientState: a1, ConsensusState: a2, Authority: s.authority(X)}
				a := deliver(s, m, "gov-upgrade")
				judge("upgrade", s, "same-type", a, s.isGov, nil)
				// other client type
				before := clientBytes(o.Name)
				bcs := &bsctypes.ClientState{Header: bsctypes.Header{Height: clienttypes.NewHeight(0, 200), Difficulty: 2, Extra: make([]byte, 97),
					UncleHash: common.HexToHash("0x1dcc4de8dec75d7aab85b567b6ccd41ad312451b948a7413f0a142fd40d49347").Bytes()}, ChainId: 56, Epoch: 200, BlockInteval: 3, TrustingPeriod: 1000}
				if err := bcs.Validate(); err != nil {
					rec.Inconclusive("the other-type client state used as payload is not even well-formed: " + err.Error())
				}
				b1, _ := clienttypes.PackClientState(bcs)
				b2, _ := clienttypes.PackConsensusState(&bsctypes.ConsensusState{Timestamp: 1, Number: clienttypes.NewHeight(0, 200), Root: make([]byte, 32)})
				m2 := &clienttypes.MsgUpgradeClient{Title: "t", Description: "d", ChainName: o.Name, ClientState: b1, ConsensusState: b2, Authority: s.authority(X)}
				a = deliver(s, m2, "gov-upgrade")
				judge("upgrade", s, "other-type", a, false, nil)
				rec.Count("upgrade-type-refused", 1)
				// mixed payload: a client state of another type together with a consensus state of the existing type
				c1, c2 := vnet.NewTMClientState(o, vnet.DefaultClientCfg)
				_ = c1
				m1, _ := clienttypes.PackConsensusState(c2)
				m3 := &clienttypes.MsgUpgradeClient{Title: "t", Description: "d", ChainName: o.Name, ClientState: b1, ConsensusState: m1, Authority: s.authority(X)}
				a = deliver(s, m3, "gov-upgrade")
				judge("upgrade", s, "other-type-client-state-with-same-type-consensus-state", a, false, nil)
				cur, _ := X.App.TIBCKeeper.ClientKeeper.GetClientState(X.Ctx(), o.Name)
				if cur == nil || cur.ClientType() != exported.Tendermint || (!s.isGov && string(clientBytes(o.Name)) != string(before)) {
					rec.Violate("upgrade-changed-client-type-or-state", map[string]string{"signer": s.name}, o.Name, w.Witness(6))
				}
				break
			}
		}
		// ---- register relayer
		{
			target := others[rng.Intn(len(others))].Name
			newRel := X.Accounts[3].Addr.String()
			m := &clienttypes.MsgRegisterRelayer{Title: "t", Description: "d", ChainName: target, Relayers: []string{X.Relayer.Addr.String(), newRel}, Authority: s.authority(X)}
			a := deliver(s, m, "gov-relayer")
			judge("register-relayer", s, "known-or-unknown-chain", a, s.isGov, func() string {
				if !X.App.TIBCKeeper.ClientKeeper.AuthRelayer(X.Ctx(), target, newRel) {
					return "relayer not registered"
				}
				return ""
			})
			if s.isGov { // restore: only the chain relayer
				X.GovExec(&clienttypes.MsgRegisterRelayer{Title: "t", Description: "d", ChainName: target, Relayers: []string{X.Relayer.Addr.String()}, Authority: gov})
			}
		}
		// ---- routing rules
		{
			rules := []string{fmt.Sprintf("%s,*,*", others[rng.Intn(len(others))].Name)}
			m := &routingtypes.MsgSetRoutingRules{Title: "t", Description: "d", Rules: rules, Authority: s.authority(X)}
			a := deliver(s, m, "gov-rules")
			judge("set-routing-rules", s, "valid-rules", a, s.isGov, func() string {
				got, _ := X.App.TIBCKeeper.RoutingKeeper.GetRoutingRules(X.Ctx())
				if len(got) != 1 || got[0] != rules[0] {
					return fmt.Sprintf("stored rules %v", got)
				}
				return ""
			})
		}
	}

	// ---- update client: who may
	for _, o := range others {
		if !has(o.Name) || w.Stop {
			continue
		}
		// another chain name for which a different account is registered
		otherName := "unrelatedchain"
		foreignRelayer := X.Accounts[3]
		if r := X.GovExec(&clienttypes.MsgRegisterRelayer{Title: "t", Description: "d", ChainName: o.Name, Relayers: []string{X.Relayer.Addr.String()}, Authority: gov}); !r.OK() {
			rec.Inconclusive("setup: register relayer: " + r.Log)
			return
		}
		X.GovExec(&clienttypes.MsgRegisterRelayer{Title: "t", Description: "d", ChainName: otherName, Relayers: []string{foreignRelayer.Addr.String()}, Authority: gov})
		// chains whose names extend this chain's name (the registry is keyed by name): their relayers must not count
		prefixRelayer := X.Accounts[1]
		for _, ext := range []string{o.Name + "-beta", o.Name + "0"} {
			X.GovExec(&clienttypes.MsgRegisterRelayer{Title: "t", Description: "d", ChainName: ext, Relayers: []string{prefixRelayer.Addr.String()}, Authority: gov})
		}
		// a passed proposal whose later message fails is rolled back as a whole (gov executes all messages on a branch of
		// the state and discards it): its register-relayer / routing-rules / create-client messages must leave nothing
		// behind, neither in the store nor in the behaviour of the next messages
		{
			rolled := []sdk.Msg{
				&clienttypes.MsgRegisterRelayer{Title: "t", Description: "d", ChainName: o.Name, Relayers: []string{X.Accounts[2].Addr.String(), foreignRelayer.Addr.String()}, Authority: gov},
				&routingtypes.MsgSetRoutingRules{Title: "t", Description: "d", Rules: []string{"rolledback,*,*"}, Authority: gov},
			}
			rulesBefore, _ := X.App.TIBCKeeper.RoutingKeeper.GetRoutingRules(X.Ctx())
			a := &world.Action{Kind: "gov-rolled-back", On: X, Note: "proposal with a failing last message", Exec: func(ctx sdk.Context) error {
				for _, m := range rolled {
					if _, err := X.App.MsgServiceRouter().Handler(m)(ctx, m); err != nil {
						return err
					}
				}
				return fmt.Errorf("the last message of the proposal failed")
			}}
			w.Do(a)
			rec.Count("rolled-back-proposals", 1)
			rec.Judge("acl/rolled-back-proposal", nClients, len(a.Res.Diff))
			if len(a.Res.Diff) > 0 {
				rec.Violate("unauthorised-request-took-effect", map[string]string{"msg": "rolled-back-proposal", "signer": "gov-exec"}, fmt.Sprintf("%d keys changed", len(a.Res.Diff)), w.Witness(6))
			}
			if X.App.TIBCKeeper.ClientKeeper.AuthRelayer(X.Ctx(), o.Name, X.Accounts[2].Addr.String()) {
				rec.Violate("unauthorised-request-took-effect", map[string]string{"msg": "rolled-back-proposal", "signer": "gov-exec", "what": "relayer of a rolled-back registration is authorised"}, o.Name, w.Witness(6))
			}
			rulesAfter, _ := X.App.TIBCKeeper.RoutingKeeper.GetRoutingRules(X.Ctx())
			if fmt.Sprint(rulesBefore) != fmt.Sprint(rulesAfter) || X.App.TIBCKeeper.RoutingKeeper.Authenticate(X.Ctx(), "rolledback", "x", "y") {
				rec.Violate("unauthorised-request-took-effect", map[string]string{"msg": "rolled-back-proposal", "signer": "gov-exec", "what": "routing rules of a rolled-back proposal are in force"}, fmt.Sprint(rulesAfter), w.Witness(6))
			}
		}
		type who struct {
			name string
			acc  *vnet.Account
			ok   bool
		}
		for _, x := range []who{{"relayer-of-other-chain", foreignRelayer, false}, {"relayer-of-chain-with-longer-name", prefixRelayer, false}, {"arbitrary-account", X.Accounts[2], false}, {"relayer-of-this-chain", X.Relayer, true}} {
			w.Do(&world.Action{Kind: "block", On: o, Exec: func(sdk.Context) error { return nil }})
			m, _ := clienttypes.NewMsgUpdateClient(o.Name, vnet.UpdateHeader(X, o, 0), x.acc.Addr)
			a := &world.Action{Kind: "update", On: X, From: o, Msgs: []sdk.Msg{m}, Signer: x.acc}
			w.Do(a)
			rec.Judge("acl/update/"+x.name, nClients, a.Res.OK())
			if x.ok {
				rec.Count("update-allowed", 1)
				if !a.Res.OK() {
					rec.Violate("authorised-request-refused", map[string]string{"msg": "update", "signer": x.name}, a.Res.Log, w.Witness(6))
				}
			} else {
				rec.Count("update-refused", 1)
				if a.Res.OK() || len(a.Res.Diff) > 0 {
					rec.Violate("unauthorised-request-took-effect", map[string]string{"msg": "update", "signer": x.name}, a.Res.Log, w.Witness(6))
				}
			}
		}
	}
	// nobody registered at all for a chain
	for _, o := range others {
		if has(o.Name) {
			if r := X.GovExec(&clienttypes.MsgRegisterRelayer{Title: "t", Description: "d", ChainName: o.Name, Relayers: []string{X.Accounts[3].Addr.String()}, Authority: gov}); !r.OK() {
				rec.Inconclusive("setup: replace relayer: " + r.Log)
				return
			}
			w.Do(&world.Action{Kind: "block", On: o, Exec: func(sdk.Context) error { return nil }})
			m, _ := clienttypes.NewMsgUpdateClient(o.Name, vnet.UpdateHeader(X, o, 0), X.Relayer.Addr)
			a := &world.Action{Kind: "update", On: X, From: o, Msgs: []sdk.Msg{m}, Signer: X.Relayer}
			w.Do(a)
			rec.Judge("acl/update/replaced-relayer", nClients, a.Res.OK())
			rec.Count("update-refused", 1)
			if a.Res.OK() || len(a.Res.Diff) > 0 {
				rec.Violate("unauthorised-request-took-effect", map[string]string{"msg": "update", "signer": "deregistered-relayer"}, a.Res.Log, w.Witness(6))
			}
			break
		}
	}
	// the registry long after the last update (every client past its trusting period): creating under an existing
	// name is still an overwrite, whoever asks and whatever the state of the stored client
	w.Net.Advance(vnet.DefaultClientCfg.TrustingPeriod + time.Duration(1+rng.Intn(100000))*time.Second)
	for _, o := range others {
		if !has(o.Name) {
			continue
		}
		// the counterparty is alive: the offered client state is that of a block it has just produced
		w.Do(&world.Action{Kind: "block", On: o, Exec: func(sdk.Context) error { return nil }})
		for _, s := range []c15Signer{signers[0], signers[1], signers[6]} {
			before := clientBytes(o.Name)
			csT, consT := vnet.NewTMClientState(o, vnet.DefaultClientCfg)
			csT.TrustingPeriod /= 2 // a different but valid client state for the same name
			m, _ := clienttypes.NewMsgCreateClient(o.Name, csT, consT, s.authority(X))
			m.ChainName, m.Title, m.Description = o.Name, "t", "d"
			a := deliver(s, m, "gov-create")
			judge("create", s, "existing-name-expired-client", a, false, nil)
			rec.Count("create-existing-refused", 1)
			rec.Count("create-over-expired-refused", 1)
			if string(clientBytes(o.Name)) != string(before) {
				rec.Violate("create-overwrote-client", map[string]string{"signer": s.name, "stored_client": "expired"}, o.Name, w.Witness(6))
			}
		}
	}
}
