package checks

import (
	"fmt"
	"math/rand"
	"testing"

	"verif/mon"
	"verif/props"
	"verif/world"
)

func tokHistories(rec *mon.Recorder, n int, tune func(i int, c *world.TokCfg), monitors func() []world.Monitor) {
	histories(rec, n, func(i int, rng *rand.Rand) (*world.World, func()) {
		cfg := world.TokCfg{NChains: 3, Steps: 110, NFT: true, MT: true, BurnProb: 0.15, BadRecv: 0.12}
		if i%3 == 2 {
			cfg.NChains = 4
		}
		tune(i, &cfg)
		net := world.NewTokNetworkMissing(mon.Seed()*6007+int64(i), rng, cfg.NChains, cfg.MissingClients)
		w := world.New(fmt.Sprintf("tok%d", i), net, rng)
		w.Monitors = monitors()
		sim := &world.TokSim{W: w, Cfg: cfg, Rng: rng}
		return w, sim.Run
	})
}

func TestC04(t *testing.T) {
	rec := mon.New("C04", "exploration",
		"seeded histories on 3-4 fully connected chains: users issue classes (plain ids, ids containing '/', ids spelling voucher paths of this network), mint few token ids (same id in several classes/chains), transfer locally, burn, and send NFTs (originals and vouchers) over direct and relayed routes to good and malformed receivers while an honest relayer delivers in random order; "+
			"a lineage ledger built only from observed ownership changes is audited against the real ownership tables of all chains after every step. distinct = distinct (event kind, lock/burn, class kind, custody depth, ledger size) tuples")
	rec.Require("native-mints", "nft-sends", "nft-deliveries", "nft-refunds")
	tokHistories(rec, mon.Scale(48, 1500), func(i int, c *world.TokCfg) {
		c.MT = false
		c.Hostile = []int{0, 1, 0, 2}[i%4]
		if i%3 == 2 { // some one-directional clients are missing
			c.MissingClients = 1 + i%2
		}
	}, func() []world.Monitor { return []world.Monitor{&props.C04{R: rec}} })
	setExit(rec.Finish())
}

func TestC05(t *testing.T) {
	rec := mon.New("C05", "exploration",
		"seeded histories on 3-4 fully connected chains: users issue MT classes, mint amounts from {1,2,2^32,2^63-1,2^63,2^64-2,2^64-1,...}, mint more (up to and over the 64-bit limit), split holdings locally, burn, and send partial amounts (originals and vouchers, incl. more than owned) over direct and relayed routes to good and malformed receivers, honest relayer in random order; "+
			"after every step the three conservation equations are evaluated with big integers on the real balances and supplies of all chains. distinct = distinct (event kind, direction, amount bit length, lineage shape) tuples")
	rec.Require("mt-native-mints", "mt-sends", "mt-deliveries", "mt-refunds")
	tokHistories(rec, mon.Scale(48, 1500), func(i int, c *world.TokCfg) {
		c.NFT = false
		if i%3 == 2 { // some one-directional clients are missing
			c.MissingClients = 1 + i%2
		}
		if i%3 == 1 { // long histories with most sends relayed: vouchers travel onward through the chain they came from
			c.RelayProb, c.Steps = 0.6, 220
		}
	},
		func() []world.Monitor { return []world.Monitor{&props.C05{R: rec}} })
	setExit(rec.Finish())
}
