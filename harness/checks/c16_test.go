package checks

import (
	"bytes"
	"context"
	"encoding/binary"
	"fmt"
	"math/rand"
	"sort"
	"strings"
	"sync"
	"testing"
	"time"

	abci "github.com/cometbft/cometbft/abci/types"
	dbm "github.com/cosmos/cosmos-db"
	"github.com/cosmos/cosmos-sdk/baseapp"
	sdk "github.com/cosmos/cosmos-sdk/types"
	"github.com/cosmos/gogoproto/proto"

	mttransfer "github.com/bianjieai/tibc-go/modules/tibc/apps/mt_transfer/types"
	nfttransfer "github.com/bianjieai/tibc-go/modules/tibc/apps/nft_transfer/types"
	clienttypes "github.com/bianjieai/tibc-go/modules/tibc/core/02-client/types"
	packettypes "github.com/bianjieai/tibc-go/modules/tibc/core/04-packet/types"
	routingtypes "github.com/bianjieai/tibc-go/modules/tibc/core/26-routing/types"
	ethtypes "github.com/bianjieai/tibc-go/modules/tibc/light-clients/09-eth/types"
	"github.com/bianjieai/tibc-go/simapp"

	"verif/mon"
	"verif/vnet"
	"verif/world"
)

// reimport exports chain x with the module manager's genesis export (what `export --modules-to-export` does for every
// registered module except evidence) and starts a fresh SimApp from it.
func reimport(net *vnet.Network, x *vnet.Chain) (*vnet.Chain, error) {
	var mods []string
	for _, m := range x.App.ModuleManager.ModuleNames() {
		if m != "evidence" {
			mods = append(mods, m)
		}
	}
	sort.Strings(mods)
	exp, err := x.App.ExportAppStateAndValidators(false, nil, mods)
	if err != nil {
		return nil, fmt.Errorf("export: %w", err)
	}
	lg := &vnet.ChainLogger{}
	app := simapp.NewSimApp(lg, dbm.NewMemDB(), nil, true, simapp.EmptyAppOptions{}, baseapp.SetChainID(x.Name))
	_, err = app.InitChain(&abci.RequestInitChain{ChainId: x.Name, Validators: []abci.ValidatorUpdate{}, ConsensusParams: simapp.DefaultConsensusParams,
		AppStateBytes: exp.AppState, InitialHeight: exp.Height, Time: net.Now})
	if err != nil {
		return nil, fmt.Errorf("init chain from export: %w", err)
	}
	y := vnet.AdoptApp(net, x, app, exp.Height)
	lg.Chain = y
	y.Logger = lg
	return y, nil
}

type twin struct {
	net      *vnet.Network
	x, y     *vnet.Chain // original, re-imported
	rec      *mon.Recorder
	w        *world.World
	diff     int
	phase    string
	diverged bool
}

// both runs f on the original and then, at the same virtual time, on the re-imported chain.
func (t *twin) both(f func(c *vnet.Chain) *vnet.Result) (*vnet.Result, *vnet.Result) {
	t0 := t.net.Now
	rx := f(t.x)
	t1 := t.net.Now
	t.net.Now = t0
	ry := f(t.y)
	t.net.Now = t1
	return rx, ry
}

func diffSet(r *vnet.Result) string {
	var sb strings.Builder
	for _, kv := range r.Diff {
		fmt.Fprintf(&sb, "%s|%x|%x;", kv.Store, kv.Key, kv.New)
	}
	return sb.String()
}

func keyClass(store, key string) string {
	switch {
	case store == "NFT":
		return "class-trace"
	case store != "tibc":
		return "token-store"
	case strings.HasPrefix(key, "clean/"):
		return "clean-point"
	case strings.HasPrefix(key, "maxAckSeq/"):
		return "max-ack-sequence"
	case strings.Contains(key, "/iterateConsensusStates"):
		return "iteration-key"
	case strings.HasSuffix(key, "/processedTime"):
		return "processed-time"
	case strings.Contains(key, "/consensusStates/"):
		return "consensus-state"
	case strings.HasPrefix(key, "clients/"):
		return "client-other"
	case strings.HasPrefix(key, "Routing/"):
		return "routing-rules"
	}
	return strings.SplitN(key, "/", 2)[0]
}

// slashHeight: does the 16-byte big-endian height of a consensus-state key contain '/'?
func slashHeight(key string) bool {
	i := strings.Index(key, "/consensusStates/")
	if i < 0 {
		return false
	}
	rest := key[i+len("/consensusStates/"):]
	if len(rest) >= 16 {
		return strings.Contains(rest[:16], "/")
	}
	return false
}

func (t *twin) violate(kind, what, detail string, extra map[string]string) {
	attrs := map[string]string{"what": what, "phase": t.phase}
	for k, v := range extra {
		attrs[k] = v
	}
	before := t.rec.Unlisted()
	t.rec.Violate(kind, attrs, detail, t.w.Witness(8))
	if t.rec.Unlisted() > before {
		t.diff++
	}
	if strings.HasPrefix(kind, "same-message") {
		t.diverged = true // the twins' states differ from here on: later differences would only be cascades
	}
}

func (t *twin) cmpMsg(kind, what string, rx, ry *vnet.Result, extra map[string]string) bool {
	t.rec.Judge("followup/"+kind, what, rx.OK(), ry.OK())
	t.rec.Count("followup-messages", 1)
	if rx.OK() != ry.OK() {
		t.violate("same-message-different-result", what, fmt.Sprintf("%s: original code=%d (%s), re-imported code=%d (%s)", kind, rx.Code, cut(rx.Log), ry.Code, cut(ry.Log)), extra)
		return false
	}
	if rx.OK() && diffSet(rx) != diffSet(ry) {
		// name the state classes in which the effects differ
		ex, ey := map[string]string{}, map[string]string{}
		for _, kv := range rx.Diff {
			ex[kv.Store+"|"+kv.Key] = string(kv.New)
		}
		for _, kv := range ry.Diff {
			ey[kv.Store+"|"+kv.Key] = string(kv.New)
		}
		cls := map[string]bool{}
		for k, v := range ex {
			if w, ok := ey[k]; !ok || w != v {
				p := strings.SplitN(k, "|", 2)
				cls[keyClass(p[0], p[1])] = true
			}
		}
		for k := range ey {
			if _, ok := ex[k]; !ok {
				p := strings.SplitN(k, "|", 2)
				cls[keyClass(p[0], p[1])] = true
			}
		}
		var names []string
		for c := range cls {
			names = append(names, c)
		}
		sort.Strings(names)
		detail := fmt.Sprintf("%s: original wrote %s, re-imported wrote %s", kind, cut(diffSet(rx)), cut(diffSet(ry)))
		for _, what := range names { // one report per state class in which the effects differ
			t.violate("same-message-different-effect", what, detail, extra)
		}
		return false
	}
	return true
}

func cut(s string) string {
	if len(s) > 220 {
		return s[:220] + "…"
	}
	return s
}

// queries runs every TIBC gRPC query over all keys the original's raw dump knows about, on both chains.
func (t *twin) queries() {
	dx := t.x.DumpStores()
	qx, qy := t.x.App.TIBCKeeper, t.y.App.TIBCKeeper
	cx, cy := context.Context(t.x.Ctx()), context.Context(t.y.Ctx())
	cmp := func(name, what string, ax proto.Message, ex error, ay proto.Message, ey error, extra map[string]string) {
		t.rec.Judge("query/"+name, what, ex == nil, ey == nil)
		t.rec.Count("queries-compared", 1)
		var bx, by []byte
		if ex == nil {
			bx, _ = proto.Marshal(ax)
		}
		if ey == nil {
			by, _ = proto.Marshal(ay)
		}
		if (ex == nil) != (ey == nil) || !bytes.Equal(bx, by) {
			t.violate("query-answers-differ", what, fmt.Sprintf("%s: original %v / %d bytes, re-imported %v / %d bytes", name, ex, len(bx), ey, len(by)), extra)
		}
	}
	clients := map[string]bool{}
	pairs := map[[2]string]bool{}
	for key := range dx["tibc"] {
		parts := strings.Split(key, "/")
		switch {
		case parts[0] == "clients" && len(parts) >= 3:
			clients[parts[1]] = true
			if parts[2] == "consensusStates" && !strings.HasSuffix(key, "/processedTime") {
				i := strings.Index(key, "/consensusStates/") + len("/consensusStates/")
				if len(key) == i+16 {
					rev, h := binary.BigEndian.Uint64([]byte(key[i:i+8])), binary.BigEndian.Uint64([]byte(key[i+8:]))
					rq := &clienttypes.QueryConsensusStateRequest{ChainName: parts[1], RevisionNumber: rev, RevisionHeight: h}
					a, e1 := qx.ConsensusState(cx, rq)
					b, e2 := qy.ConsensusState(cy, rq)
					cmp("ConsensusState", "consensus-state", a, e1, b, e2, map[string]string{"height_has_slash_byte": fmt.Sprint(slashHeight(key))})
				}
			}
		case (parts[0] == "commitments" || parts[0] == "acks" || parts[0] == "receipts") && len(parts) == 5:
			var seq uint64
			fmt.Sscan(parts[4], &seq)
			pairs[[2]string{parts[1], parts[2]}] = true
			switch parts[0] {
			case "commitments":
				rq := &packettypes.QueryPacketCommitmentRequest{SourceChain: parts[1], DestChain: parts[2], Sequence: seq}
				a, e1 := qx.PacketCommitment(cx, rq)
				b, e2 := qy.PacketCommitment(cy, rq)
				cmp("PacketCommitment", "commitment", a, e1, b, e2, nil)
			case "acks":
				rq := &packettypes.QueryPacketAcknowledgementRequest{SourceChain: parts[1], DestChain: parts[2], Sequence: seq}
				a, e1 := qx.PacketAcknowledgement(cx, rq)
				b, e2 := qy.PacketAcknowledgement(cy, rq)
				cmp("PacketAcknowledgement", "ack", a, e1, b, e2, nil)
			case "receipts":
				rq := &packettypes.QueryPacketReceiptRequest{SourceChain: parts[1], DestChain: parts[2], Sequence: seq}
				a, e1 := qx.PacketReceipt(cx, rq)
				b, e2 := qy.PacketReceipt(cy, rq)
				cmp("PacketReceipt", "receipt", a, e1, b, e2, nil)
			}
		case strings.HasPrefix(key, "relayers") && len(parts) == 1 && len(key) > 8:
			clients[key[8:]] = true // "relayers"+<chain>: relayers may be registered for a chain without a client
		case (parts[0] == "clean" || parts[0] == "maxAckSeq" || parts[0] == "nextSequenceSend") && len(parts) == 3:
			pairs[[2]string{parts[1], parts[2]}] = true
		}
	}
	for c := range clients {
		a, e1 := qx.ClientState(cx, &clienttypes.QueryClientStateRequest{ChainName: c})
		b, e2 := qy.ClientState(cy, &clienttypes.QueryClientStateRequest{ChainName: c})
		cmp("ClientState", "client-state", a, e1, b, e2, nil)
		a2, e3 := qx.ConsensusStates(cx, &clienttypes.QueryConsensusStatesRequest{ChainName: c})
		b2, e4 := qy.ConsensusStates(cy, &clienttypes.QueryConsensusStatesRequest{ChainName: c})
		cmp("ConsensusStates", "consensus-state-list", a2, e3, b2, e4, nil)
		a3, e5 := qx.Relayers(cx, &clienttypes.QueryRelayersRequest{ChainName: c})
		b3, e6 := qy.Relayers(cy, &clienttypes.QueryRelayersRequest{ChainName: c})
		cmp("Relayers", "relayers", a3, e5, b3, e6, nil)
	}
	{
		a, e1 := qx.ClientStates(cx, &clienttypes.QueryClientStatesRequest{})
		b, e2 := qy.ClientStates(cy, &clienttypes.QueryClientStatesRequest{})
		cmp("ClientStates", "client-state-list", a, e1, b, e2, nil)
		a2, e3 := qx.RoutingRules(cx, &routingtypes.QueryRoutingRulesRequest{})
		b2, e4 := qy.RoutingRules(cy, &routingtypes.QueryRoutingRulesRequest{})
		cmp("RoutingRules", "routing-rules", a2, e3, b2, e4, nil)
	}
	for p := range pairs {
		a, e1 := qx.CleanPacketCommitment(cx, &packettypes.QueryCleanPacketCommitmentRequest{SourceChain: p[0], DestChain: p[1]})
		b, e2 := qy.CleanPacketCommitment(cy, &packettypes.QueryCleanPacketCommitmentRequest{SourceChain: p[0], DestChain: p[1]})
		cmp("CleanPacketCommitment", "clean-point", a, e1, b, e2, nil)
		a2, e3 := qx.PacketCommitments(cx, &packettypes.QueryPacketCommitmentsRequest{SourceChain: p[0], DestChain: p[1]})
		b2, e4 := qy.PacketCommitments(cy, &packettypes.QueryPacketCommitmentsRequest{SourceChain: p[0], DestChain: p[1]})
		cmp("PacketCommitments", "commitment-list", a2, e3, b2, e4, nil)
		a3, e5 := qx.PacketAcknowledgements(cx, &packettypes.QueryPacketAcknowledgementsRequest{SourceChain: p[0], DestChain: p[1]})
		b3, e6 := qy.PacketAcknowledgements(cy, &packettypes.QueryPacketAcknowledgementsRequest{SourceChain: p[0], DestChain: p[1]})
		cmp("PacketAcknowledgements", "ack-list", a3, e5, b3, e6, nil)
		seqs := []uint64{1, 2, 3, 4, 5, 6, 7, 8}
		a4, e7 := qx.UnreceivedPackets(cx, &packettypes.QueryUnreceivedPacketsRequest{SourceChain: p[0], DestChain: p[1], PacketCommitmentSequences: seqs})
		b4, e8 := qy.UnreceivedPackets(cy, &packettypes.QueryUnreceivedPacketsRequest{SourceChain: p[0], DestChain: p[1], PacketCommitmentSequences: seqs})
		cmp("UnreceivedPackets", "receipt-list", a4, e7, b4, e8, nil)
		a5, e9 := qx.UnreceivedAcks(cx, &packettypes.QueryUnreceivedAcksRequest{SourceChain: p[0], DestChain: p[1], PacketAckSequences: seqs})
		b5, e10 := qy.UnreceivedAcks(cy, &packettypes.QueryUnreceivedAcksRequest{SourceChain: p[0], DestChain: p[1], PacketAckSequences: seqs})
		cmp("UnreceivedAcks", "commitment-list", a5, e9, b5, e10, nil)
	}
	{
		a, e1 := t.x.App.NftTransferKeeper.ClassTraces(cx, &nfttransfer.QueryClassTracesRequest{})
		b, e2 := t.y.App.NftTransferKeeper.ClassTraces(cy, &nfttransfer.QueryClassTracesRequest{})
		cmp("nft-transfer/ClassTraces", "class-trace", a, e1, b, e2, nil)
		a2, e3 := t.x.App.MtTransferKeeper.ClassTraces(cx, &mttransfer.QueryClassTracesRequest{})
		b2, e4 := t.y.App.MtTransferKeeper.ClassTraces(cy, &mttransfer.QueryClassTracesRequest{})
		cmp("mt-transfer/ClassTraces", "class-trace", a2, e3, b2, e4, nil)
		if e1 == nil {
			for _, tr := range a.ClassTraces {
				h := tr.Hash().String()
				x1, ex := t.x.App.NftTransferKeeper.ClassTrace(cx, &nfttransfer.QueryClassTraceRequest{Hash: h})
				y1, ey := t.y.App.NftTransferKeeper.ClassTrace(cy, &nfttransfer.QueryClassTraceRequest{Hash: h})
				cmp("nft-transfer/ClassTrace", "class-trace", x1, ex, y1, ey, nil)
			}
		}
		if e3 == nil {
			for _, tr := range a2.ClassTraces {
				h := tr.Hash().String()
				x1, ex := t.x.App.MtTransferKeeper.ClassTrace(cx, &mttransfer.QueryClassTraceRequest{Hash: h})
				y1, ey := t.y.App.MtTransferKeeper.ClassTrace(cy, &mttransfer.QueryClassTraceRequest{Hash: h})
				cmp("mt-transfer/ClassTrace", "class-trace", x1, ex, y1, ey, nil)
			}
		}
	}
}

// rawCompare lists the raw KV differences by key class (evidence only; a raw difference is not a violation by itself).
func (t *twin) rawCompare() map[string]int {
	dx, dy := t.x.DumpStores(), t.y.DumpStores()
	out := map[string]int{}
	for _, s := range vnet.WatchedStores {
		for k, v := range dx[s] {
			if w, ok := dy[s][k]; !ok || !bytes.Equal(v, w) {
				out[keyClass(s, k)]++
			}
		}
		for k := range dy[s] {
			if _, ok := dx[s][k]; !ok {
				out["extra:"+keyClass(s, k)]++
			}
		}
	}
	return out
}

func TestC16(t *testing.T) {
	rec := mon.New("C16", "exploration",
		"a 3-chain network runs the adversarial packet workload (all ports, relayed and direct routes, cleans, vouchers, rules, relayers; client updates steered onto heights whose big-endian encoding contains the byte 0x2F); the middle chain X is then exported with the module manager's genesis export and a fresh SimApp X' is initialised from it; "+
			"twin oracle: all 17 TIBC gRPC queries over every key of X's raw dump are answered by X and X'; then the same follow-up messages run in lock-step on both (replays of every relayed message of the history, pending honest relays incl. ones proven at old heights, client updates that trigger pruning, cleans, voucher send-backs, governance) comparing result and KV effect. distinct = distinct (query or message kind, state class, outcome on X, outcome on X') tuples")
	rec.Require("queries-compared", "followup-messages", "twins-built", "bsc-eth-followups")
	ethtypes.VerifSkipSeal = true // synthetic ETH headers: only the ethash computation is skipped (hook H2)
	defer func() { ethtypes.VerifSkipSeal = false }()
	rawTotals := map[string]int{}
	var rawMu sync.Mutex
	histories(rec, mon.Scale(16, 400), func(i int, rng *rand.Rand) (*world.World, func()) {
		net := vnet.New(mon.Seed()*2221+int64(i), rng, world.TokenChainNames[:3], 2, 4)
		cs := net.Chains
		A, X, C := cs[0], cs[1], cs[2]
		short := vnet.DefaultClientCfg
		short.TrustingPeriod, short.Unbonding = time.Hour, 2*time.Hour
		must16(net.CreateClient(X, A, short)) // short trusting period: pruning can be triggered
		must16(net.CreateClient(A, X, vnet.DefaultClientCfg))
		net.Connect(X, C)
		net.Connect(A, C)
		for _, c := range cs {
			net.SetRules(c, []string{"*,*,*"})
		}
		w := world.New(fmt.Sprintf("gen%d", i), net, rng)
		cfg := world.DefaultPktCfg()
		cfg.Steps, cfg.PAdv, cfg.PClean, cfg.PRelay = 140, 0.06, 0.14, 0.42
		cfg.NoFieldEdits = true // port / relay-chain edits are C13's recorded findings; their after-effects would only cascade here
		sim := world.NewPktSim(w, cfg, rng)
		return w, func() {
			// history, with client updates steered onto the '/'-heights 47 and 303 of the counterparties
			for s := 0; s < cfg.Steps && !w.Stop; s++ {
				sim.Cfg.Steps = 1
				sim.Run()
				for _, e := range []*vnet.Chain{A, C} {
					if h := e.Height(); h == 46 || h == 302 {
						w.Fresh(X, e)
					}
				}
			}
			// clients of the other two types on X: a BSC client fed 14 synthetic headers (recent signers, pending
			// validators, a rotation) and an ETH client with a small header tree incl. a fork switch
			bf, err := newBscFeed(X, rng, mon.Seed()*17+int64(i), "bsc-synthetic")
			if err != nil {
				rec.Inconclusive(err.Error())
				return
			}
			for b := 0; b < 14; b++ {
				h, signer := bf.next(rng)
				if h == nil {
					break
				}
				if r := bf.deliver(X, h); r.OK() {
					bf.p.Apply(h, signer)
				}
			}
			ef, err := newEthFeed(X, rng, "eth-synthetic")
			if err != nil {
				rec.Inconclusive(err.Error())
				return
			}
			for e := 0; e < 6; e++ {
				parent := ef.tree.Latest
				if e == 3 {
					parent = ef.nodes[1] // fork below the tip
				}
				h := synthChild(rng, parent)
				if r := ef.deliver(X, h); r.OK() {
					ef.tree.Add(h)
					ef.nodes = append(ef.nodes, h)
				}
			}
			// governance registers relayers for a chain whose client does not exist yet (it may be created later)
			if r := X.GovExec(&clienttypes.MsgRegisterRelayer{Title: "t", Description: "d", ChainName: "futurechain-1",
				Relayers: []string{X.Relayer.Addr.String(), X.Accounts[1].Addr.String()}, Authority: X.GovAddr}); r.OK() {
				rec.Count("relayers-registered-ahead-of-client", 1)
			}
			c16Twin(w, rng, rec, X, rawTotals, &rawMu, bf, ef)
		}
	})
	rec.Extra("raw_kv_differences_by_class_total", rawTotals)
	setExit(rec.Finish())
}

func must16(err error) {
	if err != nil {
		panic(err)
	}
}

func c16Twin(w *world.World, rng *rand.Rand, rec *mon.Recorder, X *vnet.Chain, rawTotals map[string]int, rawMu *sync.Mutex, bf *bscFeed, ef *ethFeed) {
	net := w.Net
	// recorded relayed messages that were delivered to X during the history (for replay)
	type old struct {
		kind string
		msgs []sdk.Msg
	}
	var olds []old
	_ = olds
	Y, err := reimport(net, X)
	if err != nil {
		rec.Violate("export-or-import-failed", map[string]string{"what": "export"}, err.Error(), w.Witness(5))
		return
	}
	rec.Count("twins-built", 1)
	tw := &twin{net: net, x: X, y: Y, rec: rec, w: w}
	// first block on both (commits the imported genesis)
	tw.both(func(c *vnet.Chain) *vnet.Result { return c.Commit(nil) })
	raw := tw.rawCompare()
	tw.phase = "after-import"
	tw.queries()
	tw.phase = "follow-up"
	// ---- follow-up messages
	relayer := func(c *vnet.Chain) *vnet.Account { return c.Relayer }
	pending := func(kind string) {
		// 1. pending honest relays towards X, proven at X's *current* client height (old heights, incl. '/'-heights)
		for _, en := range w.EnabledRelays() {
			if en.Kind != kind || en.On != X.Name || (tw.diff > 6 || tw.diverged) {
				continue
			}
			from := net.ByName[en.From]
			rx, ry := tw.both(func(c *vnet.Chain) *vnet.Result {
				var a *world.Action
				if en.Kind == "recv" {
					a = w.HonestRecv(en.Rec, c, from, relayer(c))
				} else {
					a = w.HonestAck(en.Rec, c, from, relayer(c))
				}
				return c.Deliver(relayer(c), a.Msgs...)
			})
			h := vnet.ClientHeight(X, from.Name)
			hb := make([]byte, 8)
			binary.BigEndian.PutUint64(hb, h.RevisionHeight)
			tw.cmpMsg("pending-"+en.Kind+"-at-stored-height", "consensus-state", rx, ry, map[string]string{"height_has_slash_byte": fmt.Sprint(bytes.Contains(hb, []byte("/")))})
		}
	}
	pending("recv")
	// 1b. the BSC and ETH clients keep following their chains identically
	for b := 0; b < 4 && (tw.diff <= 6 && !tw.diverged); b++ {
		h, signer := bf.next(rng)
		if h == nil {
			break
		}
		rx, ry := tw.both(func(c *vnet.Chain) *vnet.Result { return bf.deliver(c, h) })
		if tw.cmpMsg("update-bsc-client", "client-other", rx, ry, nil) && rx.OK() {
			bf.p.Apply(h, signer)
		}
		rec.Count("bsc-eth-followups", 1)
	}
	for e := 0; e < 4 && (tw.diff <= 6 && !tw.diverged); e++ {
		parent := ef.tree.Latest
		if e == 2 {
			parent = ef.nodes[len(ef.nodes)/2] // a fork switch after the import
		}
		h := synthChild(rng, parent)
		rx, ry := tw.both(func(c *vnet.Chain) *vnet.Result { return ef.deliver(c, h) })
		if tw.cmpMsg("update-eth-client", "client-other", rx, ry, nil) && rx.OK() {
			ef.tree.Add(h)
			ef.nodes = append(ef.nodes, h)
		}
		rec.Count("bsc-eth-followups", 1)
	}
	// 5. governance
	{
		rx, ry := tw.both(func(c *vnet.Chain) *vnet.Result {
			return c.GovExec(&routingtypes.MsgSetRoutingRules{Title: "t", Description: "d", Rules: []string{"a.b,*,*"}, Authority: c.GovAddr})
		})
		tw.cmpMsg("set-routing-rules", "routing-rules", rx, ry, nil)
		rx, ry = tw.both(func(c *vnet.Chain) *vnet.Result {
			return c.GovExec(&clienttypes.MsgRegisterRelayer{Title: "t", Description: "d", ChainName: net.Chains[0].Name, Relayers: []string{c.Relayer.Addr.String(), c.Accounts[2].Addr.String()}, Authority: c.GovAddr})
		})
		tw.cmpMsg("register-relayer", "relayers", rx, ry, nil)
	}
	// 6. client updates; the short-lived client of A is driven past its first states' expiry so that pruning must happen
	A := net.Chains[0]
	for round := 0; round < 3 && (tw.diff <= 6 && !tw.diverged); round++ {
		net.Advance(25 * time.Minute)
		for _, e := range net.Chains {
			if e == X || !world.HasClient(X, e.Name) {
				continue
			}
			e.Commit(nil)
			rx, ry := tw.both(func(c *vnet.Chain) *vnet.Result {
				m, _ := clienttypes.NewMsgUpdateClient(e.Name, vnet.UpdateHeader(c, e, 0), c.Relayer.Addr)
				return c.Deliver(c.Relayer, m)
			})
			what := "client-update"
			if e == A {
				what = "iteration-key"
			}
			tw.cmpMsg("update-client", what, rx, ry, nil)
		}
	}
	// queries again: pruning effects and everything the follow-ups touched
	if tw.diff <= 6 && !tw.diverged {
		tw.phase = "after-follow-ups"
		tw.queries()
	}
	pending("ack")
	// 3. clean requests with X as the source
	for _, p := range w.Pairs() {
		if p[0] != X.Name || (tw.diff > 6 || tw.diverged) {
			continue
		}
		n := world.MaxAck(X, p[0], p[1])
		cp := world.CleanPoint(X, p[0], p[1])
		for q := cp + 1; q <= n; q++ {
			if world.HasCommitment(X, world.PKey{Src: p[0], Dst: p[1], Seq: q}) {
				n = q - 1
				break
			}
		}
		if n <= cp {
			continue
		}
		cpk := packettypes.NewCleanPacket(n, p[0], p[1], "")
		rx, ry := tw.both(func(c *vnet.Chain) *vnet.Result {
			return c.Deliver(c.Accounts[1], packettypes.NewMsgCleanPacket(cpk, c.Accounts[1].Addr))
		})
		tw.cmpMsg("clean-on-source", "max-ack-sequence", rx, ry, nil)
	}
	// 2. replays of every packet message X accepted before (verbatim: old proofs)
	for _, rec0 := range w.SortedPackets() {
		if tw.diff > 6 || tw.diverged {
			break
		}
		hops := rec0.Hops()
		for i := 1; i < len(hops); i++ {
			if hops[i] != X.Name {
				continue
			}
			from := net.ByName[hops[i-1]]
			rx, ry := tw.both(func(c *vnet.Chain) *vnet.Result {
				a := w.HonestRecv(rec0, c, from, relayer(c))
				return c.Deliver(relayer(c), a.Msgs...)
			})
			what := "receipt"
			if rec0.Key.Seq <= world.CleanPoint(X, rec0.Key.Src, rec0.Key.Dst) {
				what = "clean-point"
			}
			tw.cmpMsg("replayed-recv", what, rx, ry, nil)
		}
	}
	// 4. vouchers held on X are sent back towards their origin
	for _, h := range world.NftSnapshot(X) {
		if !world.IsVoucherClass(h.Class) || (tw.diff > 6 || tw.diverged) {
			continue
		}
		for _, acc := range X.Accounts {
			if acc.Addr.String() != h.Owner {
				continue
			}
			path, err := X.App.NftTransferKeeper.ClassPathFromHash(X.Ctx(), h.Class)
			if err != nil {
				continue
			}
			parts := strings.Split(path, "/")
			if len(parts) < 4 {
				continue
			}
			dest := parts[len(parts)-3]
			idx := 0
			for j, a := range X.Accounts {
				if a == acc {
					idx = j
				}
			}
			rx, ry := tw.both(func(c *vnet.Chain) *vnet.Result {
				u := c.Accounts[idx]
				return c.Deliver(u, &nfttransfer.MsgNftTransfer{Class: h.Class, Id: h.ID, Sender: u.Addr.String(), Receiver: u.Addr.String(), DestChain: dest})
			})
			tw.cmpMsg("voucher-send-back", "class-trace", rx, ry, nil)
		}
	}
	rawMu.Lock()
	for k, v := range raw {
		rawTotals[k] += v
	}
	rawMu.Unlock()
	if len(rec.Samples()) < 3 {
		rec.Sample(map[string]any{"chain": X.Name, "exported_at_height": X.Height(), "raw_kv_differences_after_import_by_class": raw, "packets_in_history": len(w.Order)})
	}
}
