package checks

import (
	"context"
	"crypto/sha256"
	"encoding/hex"
	"encoding/json"
	"fmt"
	"math/rand"
	"os"
	"os/exec"
	"path/filepath"
	"strconv"
	"sync"
	"sync/atomic"
	"testing"
	"time"

	abci "github.com/cometbft/cometbft/abci/types"
	sdk "github.com/cosmos/cosmos-sdk/types"
	"github.com/ethereum/go-ethereum/common"

	clienttypes "github.com/bianjieai/tibc-go/modules/tibc/core/02-client/types"
	bsctypes "github.com/bianjieai/tibc-go/modules/tibc/light-clients/08-bsc/types"
	ethtypes "github.com/bianjieai/tibc-go/modules/tibc/light-clients/09-eth/types"

	"verif/model"
	"verif/mon"
	"verif/vnet"
	"verif/world"
)

// blockDigest is what one block looked like from outside.
type blockDigest struct {
	Chain   string `json:"chain"`
	Height  int64  `json:"height"`
	Inputs  string `json:"inputs"`  // hash of block time + tx bytes
	Results string `json:"results"` // hash of every tx result (code, codespace, log, gas, data, events) + app hash
	AppHash string `json:"app_hash"`
	Kinds   string `json:"kinds,omitempty"`
}

var dbgDump [][]string
var dbgOn = os.Getenv("VERIF_DBG") != ""

func digestBlock(c *vnet.Chain, txs [][]byte, res *abci.ResponseFinalizeBlock, r *vnet.Result) blockDigest {
	if dbgOn {
		if len(dbgDump) == 0 || r.Height == 1 && c.Name == "alphachain" {
			dbgDump = append(dbgDump, nil)
		}
		dbgDump[len(dbgDump)-1] = append(dbgDump[len(dbgDump)-1], fmt.Sprintf("%s h=%d txs=%d res=%v blockev=%v diff=%v", c.Name, r.Height, len(txs), res.TxResults, res.Events, r.Diff))
	}
	hi := sha256.New()
	fmt.Fprintf(hi, "%s|%d|%d|", c.Name, r.Height, r.Time.UnixNano())
	for _, tx := range txs {
		hi.Write(tx)
		hi.Write([]byte{0})
	}
	hr := sha256.New()
	for _, x := range res.TxResults {
		fmt.Fprintf(hr, "%d|%s|%s|%d|%d|%x|", x.Code, x.Codespace, x.Log, x.GasUsed, x.GasWanted, x.Data)
		for _, ev := range x.Events {
			fmt.Fprintf(hr, "E:%s{", ev.Type)
			for _, a := range ev.Attributes {
				fmt.Fprintf(hr, "%s=%s,%v;", a.Key, a.Value, a.Index)
			}
			hr.Write([]byte("}"))
		}
	}
	for _, ev := range res.Events {
		fmt.Fprintf(hr, "B:%s{", ev.Type)
		for _, a := range ev.Attributes {
			fmt.Fprintf(hr, "%s=%s;", a.Key, a.Value)
		}
	}
	hr.Write(r.AppHash)
	return blockDigest{Chain: c.Name, Height: r.Height, Inputs: hex.EncodeToString(hi.Sum(nil)[:12]), Results: hex.EncodeToString(hr.Sum(nil)[:12]), AppHash: hex.EncodeToString(r.AppHash[:8])}
}

// c20OnNet, when set, is told about the network of a history (used by the race-detector pass to attach concurrent readers).
var c20OnNet func(*vnet.Network)

// c20Restart, when set, makes the history compare a restarted node on sampled blocks and receives the outcomes.
var c20Restart func(chain string, height int64, diff string)

// c20ChosenT0 is the date the first execution of history 0 chose for the wall-clock probe.
var c20ChosenT0 int64

// c20History runs history i and returns its block digests. realSeal: include ETH updates with the real ethash check.
func c20History(i int, seed int64, realSeal bool, wallT0 int64) []blockDigest {
	rng := rand.New(rand.NewSource(seed*15485863 + int64(i)))
	cfg := world.DefaultPktCfg()
	cfg.NChains = 3
	cfg.FullMesh = i%2 == 0
	cfg.Steps = 60
	net := world.NewPktNetwork(seed*611953+int64(i), rng, cfg)
	if c20OnNet != nil {
		c20OnNet(net)
	}
	var out []blockDigest
	for _, c := range net.Chains {
		c := c
		c.OnBlock = func(txs [][]byte, res *abci.ResponseFinalizeBlock, r *vnet.Result) {
			out = append(out, digestBlock(c, txs, res, r))
		}
		if c20Restart != nil {
			// every 3rd block with transactions is also executed by a node restarted on the database as committed so far
			c.RestartEvery = 3
			c.OnRestart = func(h int64, diff string) { c20Restart(c.Name, h, diff) }
		}
	}
	w := world.New(fmt.Sprintf("det%d", i), net, rng)
	sim := world.NewPktSim(w, cfg, rng)
	sim.Run()
	host := net.Chains[0]
	// ---- BSC client: created by governance, updated through MsgUpdateClient with valid and invalid synthetic headers
	g := newBscGen(rng, seed*31+int64(i))
	cur, pend := g.randSet(5), g.randSet(7)
	gen := model.PHeader{Number: g.epoch * 4, Time: 1_600_000_000, GasLimit: 30_000_000, Difficulty: 2,
		UncleHash: common.HexToHash("0x1dcc4de8dec75d7aab85b567b6ccd41ad312451b948a7413f0a142fd40d49347"), Extra: extraWith(pend, 0), Coinbase: cur[0]}
	gen.Seal(g.chainID, g.byAddr[cur[0]])
	p := model.NewParlia(g.chainID, g.epoch, gen, cur, pend)
	bcs := &bsctypes.ClientState{Header: *toBscHeader(&gen), ChainId: g.chainID, Epoch: g.epoch, BlockInteval: 3, Validators: addrBytes(p.Validators), ContractAddress: make([]byte, 20), TrustingPeriod: 1 << 40}
	m, _ := clienttypes.NewMsgCreateClient("bsc-synthetic", bcs, &bsctypes.ConsensusState{Timestamp: gen.Time, Number: clienttypes.NewHeight(0, gen.Number), Root: gen.Root[:]}, host.GovAddr)
	m.ChainName, m.Title, m.Description = "bsc-synthetic", "t", "d"
	host.GovExec(m)
	host.GovExec(&clienttypes.MsgRegisterRelayer{Title: "t", Description: "d", ChainName: "bsc-synthetic", Relayers: []string{host.Relayer.Addr.String()}, Authority: host.GovAddr})
	for b := 0; b < 24; b++ {
		n := uint64(len(p.Validators))
		num := p.Latest.Number + 1
		var elig []common.Address
		for _, v := range p.Validators {
			ok := true
			for seen, s := range p.Recents {
				if s == v && seen+n/2+1 > num {
					ok = false
				}
			}
			if ok {
				elig = append(elig, v)
			}
		}
		if len(elig) == 0 {
			break
		}
		signer := elig[rng.Intn(len(elig))]
		valid := g.child(p, signer, g.randSet(1+rng.Intn(9)))
		if rng.Intn(4) == 0 { // a failing update in between
			bad := valid
			bad.Extra = append([]byte{}, valid.Extra...)
			bad.Difficulty = 3 - bad.Difficulty
			bad.Seal(g.chainID, g.byAddr[signer])
			um, _ := clienttypes.NewMsgUpdateClient("bsc-synthetic", toBscHeader(&bad), host.Relayer.Addr)
			host.Deliver(host.Relayer, um)
		}
		um, _ := clienttypes.NewMsgUpdateClient("bsc-synthetic", toBscHeader(&valid), host.Relayer.Addr)
		if r := host.Deliver(host.Relayer, um); r.OK() {
			p.Apply(&valid, signer)
		}
	}
	// a few more protocol steps after the light-client segment
	sim.Cfg.Steps = 15
	sim.Run()
	_ = sdk.AccAddress{}
	// ---- ETH client on recorded mainnet headers
	hs := recordedEth(nil)
	if hs != nil {
		// the recorded headers are from September 2021: move the clock there (the Tendermint clients expire, which is part of the history)
		net.Now = time.Unix(int64(hs[3].Time)+30, 0).UTC()
		ecs := &ethtypes.ClientState{Header: *toTibcEth(hs[0]), ChainId: 1, ContractAddress: make([]byte, 20), TrustingPeriod: 1 << 40, BlockDelay: 1}
		em, _ := clienttypes.NewMsgCreateClient("eth-mainnet", ecs, &ethtypes.ConsensusState{Timestamp: hs[0].Time, Number: clienttypes.NewHeight(0, hs[0].Number.Uint64()), Root: hs[0].Root[:]}, host.GovAddr)
		em.ChainName, em.Title, em.Description = "eth-mainnet", "t", "d"
		host.GovExec(em)
		host.GovExec(&clienttypes.MsgRegisterRelayer{Title: "t", Description: "d", ChainName: "eth-mainnet", Relayers: []string{host.Relayer.Addr.String()}, Authority: host.GovAddr})
		nReal := 1
		if !realSeal {
			nReal = 0
		}
		for j := 1; j <= 3; j++ {
			if j > nReal {
				// beyond the real-seal budget: a header with a damaged seal (cheap to reject? no: still costs one ethash) is skipped
				break
			}
			um, _ := clienttypes.NewMsgUpdateClient("eth-mainnet", toTibcEth(hs[j]), host.Relayer.Addr)
			host.Deliver(host.Relayer, um)
		}
		// header-level failures that do not reach the seal
		bad := cloneHdr(hs[1])
		bad.Time = hs[0].Time
		um, _ := clienttypes.NewMsgUpdateClient("eth-mainnet", toTibcEth(bad), host.Relayer.Addr)
		host.Deliver(host.Relayer, um)
	}
	// ---- wall-clock probe: a synthetic ETH header dated wallT0 (a few seconds ahead of the real clock when the first
	// execution runs) in a block whose *virtual* time is wallT0 as well. The block time makes it acceptable; an
	// implementation that consults the wall clock instead answers differently depending on when it is executed.
	if wallT0 == -1 {
		// first execution: the probe's date is chosen now (20 s ahead of the real clock) and reused by every replay
		wallT0 = time.Now().Unix() + 20
		c20ChosenT0 = wallT0
	}
	if wallT0 != 0 {
		net.Now = time.Unix(wallT0, 0).UTC()
		ethtypes.VerifSkipSeal = true
		if ef, err := newEthFeed(host, rng, "eth-wallclock"); err == nil {
			h := synthChild(rng, ef.tree.Latest)
			h.Time = uint64(wallT0)
			h.Difficulty = model.ExpectedDifficulty(h.Time, ef.tree.Latest)
			ef.deliver(host, h)
		}
		ethtypes.VerifSkipSeal = false
	}
	return out
}

func envInt64(k string) int64 {
	v, _ := strconv.ParseInt(os.Getenv(k), 10, 64)
	return v
}

func firstDiff(a, b []blockDigest) (int, string) {
	n := len(a)
	if len(b) < n {
		n = len(b)
	}
	for k := 0; k < n; k++ {
		if a[k].Inputs != b[k].Inputs {
			return k, "inputs"
		}
		if a[k].Results != b[k].Results {
			return k, "results"
		}
	}
	if len(a) != len(b) {
		return n, "length"
	}
	return -1, ""
}

// TestC20Child is the fresh-process replay: it writes the digests of one history to VERIF_C20_OUT.
func TestC20Child(t *testing.T) {
	out := os.Getenv("VERIF_C20_OUT")
	if out == "" {
		t.Skip("only run as a child of TestC20")
	}
	i, _ := strconv.Atoi(os.Getenv("VERIF_C20_HIST"))
	ds := c20History(i, mon.Seed(), os.Getenv("VERIF_C20_REAL") == "1", envInt64("VERIF_C20_T0"))
	bz, _ := json.Marshal(ds)
	if err := os.WriteFile(out, bz, 0o644); err != nil {
		t.Fatal(err)
	}
}

func TestC20(t *testing.T) {
	rec := mon.New("C20", "exploration",
		"histories containing every TIBC transaction kind (Tendermint client updates, packets on all ports over direct and relayed routes, acks, cleans, governance execution, failing and adversarial messages, creation and updates of a BSC client with valid and invalid synthetic headers, creation and updates of an ETH client on recorded mainnet headers with the real ethash check) are executed repeatedly: "+
			"in the same process one after the other (in the first execution every 3rd block with transactions is also executed by a node freshly restarted on a copy of the committed database and compared tx result by tx result), and in fresh processes with different GOMAXPROCS, TMPDIR (pre-filled with junk), TZ and LANG, plus (fault) an unwritable TMPDIR; every block's inputs (time, tx bytes) and outputs (code, codespace, log, gas, data, events of every tx, app hash) are digested and the streams compared. One evaluation = one block compared between two executions; distinct = distinct (history, block) pairs")
	rec.Require("blocks-compared", "fresh-process-replays", "eth-real-seal-blocks", "wall-clock-probe-replayed-after-its-date", "restarted-node-blocks")
	seed := mon.Seed()
	nHist := mon.Scale(4, 24)
	if v, err := strconv.Atoi(os.Getenv("VERIF_C20_N")); err == nil && v > 0 {
		nHist = v
	}
	repeats := mon.Scale(2, 4)
	exe, _ := os.Executable()
	// the wall-clock probe of history 0 is dated 20 s ahead of the real clock now; the last fresh-process replay waits
	// until the real clock has passed it
	wallT0 := int64(0) // chosen by the first execution of history 0 when it reaches the probe
	tmpRoot, _ := os.MkdirTemp("", "c20-")
	defer os.RemoveAll(tmpRoot)
	type envCase struct {
		name string
		env  []string
		prep func(dir string)
	}
	envs := []envCase{
		{"gomaxprocs1-junk-tmpdir", []string{"GOMAXPROCS=1", "TZ=Asia/Tokyo", "LANG=tr_TR.UTF-8"}, func(dir string) {
			for k := 0; k < 20; k++ {
				os.WriteFile(filepath.Join(dir, fmt.Sprintf("cache-R23-%016x", k)), []byte("junk junk junk"), 0o644)
			}
		}},
		{"gomaxprocs3", []string{"GOMAXPROCS=3", "TZ=America/Lima"}, nil},
		// fault: no usable temporary directory at all
		{"missing-tmpdir", []string{"GOMAXPROCS=2"}, func(dir string) { os.Remove(dir) }},
	}
	for i := 0; i < nHist; i++ {
		realSeal := i == 0 || mon.Tier() == "thorough"
		t0 := int64(0)
		if i == 0 {
			t0 = -1
		}
		c20Restart = func(chain string, h int64, diff string) {
			rec.Judge("block-compared/restarted-node", i, chain, h)
			rec.Count("restarted-node-blocks", 1)
			if diff != "" {
				rec.Violate("restarted-node-differs", map[string]string{"run": "restarted-node"},
					fmt.Sprintf("history %d %s height %d: a node restarted on the committed database executes the block differently from the node that kept running: %s", i, chain, h, diff),
					map[string]any{"history": i, "seed": seed, "chain": chain, "height": h})
			}
		}
		ref := c20History(i, seed, realSeal, t0)
		c20Restart = nil
		if i == 0 {
			wallT0 = c20ChosenT0
			t0 = wallT0
		}
		if realSeal {
			rec.Count("eth-real-seal-blocks", 1)
		}
		compare := func(kind string, other []blockDigest) {
			k, what := firstDiff(ref, other)
			n := len(ref)
			if len(other) < n {
				n = len(other)
			}
			for b := 0; b < n; b++ {
				rec.Judge("block-compared/"+kind, i, b)
			}
			rec.Count("blocks-compared", int64(n))
			switch what {
			case "":
			case "inputs", "length":
				rec.Inconclusive(fmt.Sprintf("history %d: the generator itself produced different inputs at block %d in run %s (harness nondeterminism, nothing can be concluded)", i, k, kind))
			case "results":
				rec.Violate("same-inputs-different-results", map[string]string{"run": kind},
					fmt.Sprintf("history %d block %d (%s height %d): identical block time and tx bytes, results/app hash %s vs %s", i, k, ref[k].Chain, ref[k].Height, ref[k].Results, other[k].Results),
					map[string]any{"reference": ref[k], "other": other[k], "history": i, "seed": seed})
			}
		}
		for r := 0; r < repeats; r++ {
			compare("same-process-rerun", c20History(i, seed, realSeal, t0))
		}
		for e, ec := range envs {
			if mon.Tier() == "quick" && i > 1 {
				break
			}
			dir := filepath.Join(tmpRoot, fmt.Sprintf("tmp-%d-%d", i, e))
			os.MkdirAll(dir, 0o755)
			if ec.prep != nil {
				ec.prep(dir)
			}
			outFile := filepath.Join(tmpRoot, fmt.Sprintf("out-%d-%d.json", i, e))
			cmd := exec.Command(exe, "-test.run", "^TestC20Child$", "-test.timeout", "0")
			cmd.Env = append(os.Environ(), ec.env...)
			rs := "0"
			if realSeal {
				rs = "1"
			}
			cmd.Env = append(cmd.Env, "TMPDIR="+dir, "VERIF_C20_OUT="+outFile, "VERIF_C20_HIST="+strconv.Itoa(i), "VERIF_C20_REAL="+rs, "VERIF_C20_T0="+strconv.FormatInt(t0, 10))
			if i == 0 && e == len(envs)-1 {
				// by now the real clock must have passed the probe's date
				for time.Now().Unix() <= wallT0+16 {
					time.Sleep(500 * time.Millisecond)
				}
				rec.Count("wall-clock-probe-replayed-after-its-date", 1)
			}
			t0 := time.Now()
			outb, err := cmd.CombinedOutput()
			os.Chmod(dir, 0o755)
			var ds []blockDigest
			bz, rerr := os.ReadFile(outFile)
			if err != nil || rerr != nil || json.Unmarshal(bz, &ds) != nil {
				rec.Inconclusive(fmt.Sprintf("fresh-process replay %s of history %d did not complete: %v %s", ec.name, i, err, cut(string(outb))))
				continue
			}
			rec.Count("fresh-process-replays", 1)
			rec.Count("fresh-process-seconds", int64(time.Since(t0).Seconds()))
			compare("fresh-process/"+ec.name, ds)
		}
		if len(rec.Samples()) < 3 {
			rec.Sample(map[string]any{"history": i, "blocks": len(ref), "first_block": ref[0], "last_block": ref[len(ref)-1], "eth_real_seal": realSeal})
		}
	}
	setExit(rec.Finish())
}

// TestC20Race runs under `go test -race` (thorough tier, see run.sh): history 0 with the real ethash check while reader
// goroutines issue TIBC gRPC queries against committed heights of every chain. Race reports go to GORACE's log_path and
// are classified by run.sh; this test only has to drive the workload and check that the digests still agree.
func TestC20Race(t *testing.T) {
	if os.Getenv("VERIF_RACE_PASS") == "" {
		t.Skip("only run by run.sh in the race pass")
	}
	seed := mon.Seed()
	stop := make(chan struct{})
	var wg sync.WaitGroup
	var queries int64
	c20OnNet = func(net *vnet.Network) {
		for _, c := range net.Chains {
			c := c
			for q := 0; q < 2; q++ {
				wg.Add(1)
				go func(q int) {
					defer wg.Done()
					paths := []string{"/tibc.core.client.v1.Query/ClientStates", "/tibc.core.routing.v1.Query/RoutingRules", "/tibc.core.client.v1.Query/Relayers"}
					for n := 0; ; n++ {
						select {
						case <-stop:
							return
						default:
						}
						func() {
							defer func() { recover() }()
							c.App.Query(context.Background(), &abci.RequestQuery{Path: paths[n%len(paths)]})
							c.App.Query(context.Background(), &abci.RequestQuery{Path: "store/tibc/key", Data: []byte("Routing/Rules"), Prove: true})
						}()
						atomic.AddInt64(&queries, 1)
						time.Sleep(2 * time.Millisecond)
					}
				}(q)
			}
		}
	}
	other := c20History(0, seed, true, 0)
	close(stop)
	wg.Wait()
	c20OnNet = nil
	// the reference run needs no readers and no second ethash: compare everything but the real-seal block count
	ref := c20History(0, seed, true, 0)
	k, what := firstDiff(ref, other)
	fmt.Printf("RACE-PASS blocks=%d concurrent_queries=%d first_diff=%d %s\n", len(other), atomic.LoadInt64(&queries), k, what)
	if what == "results" {
		fmt.Printf("VIOLATION property=C20 replay=%s\n", "race-pass: results differ with concurrent readers at block "+strconv.Itoa(k))
		t.Fail()
	}
}
