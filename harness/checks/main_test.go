// Package checks holds the entry points: one Test per property, run from the
// compiled test binary by /verif/run.sh. The process exit code is the verdict:
// 0 held on what was observed, 1 violation, 3 inconclusive.
package checks

import (
	"fmt"
	"math/rand"
	"os"
	"runtime/debug"
	"sync"
	"testing"

	"verif/mon"
	"verif/world"
)

var exitCode = 0

func setExit(c int) {
	if c > exitCode || (c == 1) {
		if exitCode != 1 {
			exitCode = c
		}
	}
}

func TestMain(m *testing.M) {
	c := m.Run()
	if exitCode != 0 {
		os.Exit(exitCode)
	}
	os.Exit(c)
}

// histories runs n histories on up to 16 workers. mk builds the world of history i
// (with its monitors) and returns the function that runs it.
func histories(rec *mon.Recorder, n int, mk func(i int, rng *rand.Rand) (*world.World, func())) {
	seed := mon.Seed()
	workers := 16
	if n < workers {
		workers = n
	}
	var wg sync.WaitGroup
	var mu sync.Mutex
	fps := map[uint64]struct{}{}
	steps := 0
	jobs := make(chan int)
	for wk := 0; wk < workers; wk++ {
		wg.Add(1)
		go func() {
			defer wg.Done()
			for i := range jobs {
				func() {
					rng := rand.New(rand.NewSource(seed*1_000_003 + int64(i)))
					var w *world.World
					defer func() {
						if r := recover(); r != nil {
							var wit any
							if w != nil {
								wit = w.Witness(40)
							}
							rec.Violate("panic", map[string]string{"history": fmt.Sprint(i)}, fmt.Sprintf("%v\n%s", r, debug.Stack()), wit)
						}
					}()
					var run func()
					w, run = mk(i, rng)
					run()
					if i < 3 {
						rec.Sample(w.Witness(4))
					}
					mu.Lock()
					fps[w.Fingerprint()] = struct{}{}
					steps += len(w.Log)
					mu.Unlock()
				}()
			}
		}()
	}
	for i := 0; i < n; i++ {
		jobs <- i
	}
	close(jobs)
	wg.Wait()
	rec.Extra("histories", n)
	rec.Extra("distinct_interleavings", len(fps))
	rec.Extra("steps_executed", steps)
}
