package checks

import (
	"fmt"
	"math/rand"
	"sync"
	"testing"

	"verif/mon"
	"verif/props"
	"verif/world"
)

func TestC19(t *testing.T) {
	rec := mon.New("C19", "fault_enumeration",
		"(a) fault scenario: every TIBC message type (NFT/MT send lock+burn, receive mint+unlock, success and error acknowledgements with refund, relay hops, clean, receive-clean, client update) is delivered under a gas-limit sweep so that it aborts at successive store accesses, plus multi-message transactions with a late failing message and crafted late-failing / error-ack-producing packets; "+
			"(b) the shared adversarial packet workload. One evaluation = one failed transaction (KV diff of tibc/NFT/nft/mt must be empty) or one error-acknowledged receive (token state unchanged, tibc diff = receipt+ack). distinct = distinct (message kind, fault class, error class / abort gas bucket) tuples")
	rec.Require("failed-tx", "error-acked-receives", "gas-aborts")
	var mu sync.Mutex
	aborts := map[string]int{}
	nScen := mon.Scale(6, 64)
	step := uint64(mon.Scale(1499, 307))
	histories(rec, nScen, func(i int, rng *rand.Rand) (*world.World, func()) {
		cfg := world.DefaultPktCfg()
		cfg.FullMesh = true
		cfg.Rules = [][]string{{"*,*,*"}}
		net := world.NewPktNetwork(mon.Seed()*104729+int64(i), rng, cfg)
		w := world.New(fmt.Sprintf("fault%d", i), net, rng)
		w.Monitors = []world.Monitor{&props.NoTrace{R: rec, GasBuckets: true}, &props.ErrAck{R: rec}}
		f := &world.FaultScenario{W: w, Rng: rng, Step: step}
		return w, func() {
			f.Run()
			mu.Lock()
			for k, v := range f.Aborts {
				aborts[k] += v
				rec.Count("gas-aborts", int64(v))
			}
			mu.Unlock()
		}
	})
	rec.Extra("gas_abort_points_per_message_kind", aborts)
	pktHistories(rec, mon.Scale(32, 1200), func(i int, c *world.PktCfg) { c.PAdv, c.PFailSend = 0.3, 0.08 },
		func() []world.Monitor { return []world.Monitor{&props.NoTrace{R: rec}, &props.ErrAck{R: rec}} })
	// (c) the token workload: the same class / token id arrives on a chain again and again (partial MT amounts, vouchers
	// going back and forth, malformed receivers, relay chains without a client of the destination)
	tokHistories(rec, mon.Scale(24, 800), func(i int, c *world.TokCfg) {
		c.BadRecv, c.MissingClients = 0.3, i%3
		c.Hostile = i % 2
	}, func() []world.Monitor { return []world.Monitor{&props.NoTrace{R: rec}, &props.ErrAck{R: rec}} })
	setExit(rec.Finish())
}
