package checks

import (
	"fmt"
	"math/rand"
	"os"
	"sync"
	"sync/atomic"
	"testing"
	"time"

	"github.com/anishathalye/porcupine"
	sdk "github.com/cosmos/cosmos-sdk/types"

	packettypes "github.com/bianjieai/tibc-go/modules/tibc/core/04-packet/types"

	"verif/mon"
	"verif/vnet"
	"verif/world"
)

type submitReq struct {
	tx   []byte
	acc  *vnet.Account
	resp chan submitResp
}

type submitResp struct {
	code   uint32
	log    string
	newSeq uint64
	block  int64
}

// concurrentRelayers: R relayer goroutines race to submit overlapping receives of K committed packets into one block
// producer (several txs per block, arrival order decided by the scheduler). Every submission is a call/return pair; the
// per-packet sub-histories are checked with porcupine against "the first receive succeeds, every later one fails".
func concurrentRelayers(rec *mon.Recorder, seed int64, run int) {
	rng := rand.New(rand.NewSource(seed*911 + int64(run)))
	net := vnet.New(seed*13+int64(run), rng, []string{"alphachain", "bravochain"}, 2, 6)
	A, B := net.Chains[0], net.Chains[1]
	net.Connect(A, B)
	w := world.New(fmt.Sprintf("conc%d", run), net, rng)
	var cbMu sync.Mutex
	cbCount := map[string]int{}
	B.Logger.Sink = func(v any) {
		cb := v.(world.Callback)
		if cb.Kind == "recv" {
			cbMu.Lock()
			cbCount[fmt.Sprintf("%s>%s#%d", cb.Packet.SourceChain, cb.Packet.DestinationChain, cb.Packet.Sequence)]++
			cbMu.Unlock()
		}
	}
	K := 4 + rng.Intn(8)
	var pkts []packettypes.Packet
	for i := 0; i < K; i++ {
		seq := world.NextSend(A, A.Name, B.Name)
		p := packettypes.NewPacket([]byte(fmt.Sprintf("conc-%d-%d", run, i)), seq, A.Name, B.Name, "", world.MockPort)
		if r := A.Exec(func(ctx sdk.Context) error { return A.App.TIBCKeeper.PacketKeeper.SendPacket(ctx, &p) }); !r.OK() {
			rec.Inconclusive("concurrent run: send failed: " + r.Log)
			return
		}
		pkts = append(pkts, p)
	}
	if r := net.UpdateClient(B, A); !r.OK() {
		rec.Inconclusive("concurrent run: client update failed: " + r.Log)
		return
	}
	// messages are built up front (proofs at the one client height), signing happens in the relayer goroutines
	msgs := make([]*packettypes.MsgRecvPacket, K)
	for i, p := range pkts {
		msgs[i] = vnet.RecvMsg(B, A, p, B.Accounts[0].Addr)
	}
	mempool := make(chan submitReq, 64)
	done := make(chan struct{})
	var blocks int64
	var multi int64
	// block producer
	var pwg sync.WaitGroup
	pwg.Add(1)
	go func() {
		defer pwg.Done()
		for {
			var batch []submitReq
			select {
			case r := <-mempool:
				batch = append(batch, r)
			case <-done:
				return
			}
			// give racing relayers a moment, then drain whatever arrived
			time.Sleep(time.Duration(rng.Intn(300)) * time.Microsecond)
		drain:
			for len(batch) < 8 {
				select {
				case r := <-mempool:
					batch = append(batch, r)
				default:
					break drain
				}
			}
			txs := make([][]byte, len(batch))
			for i, b := range batch {
				txs[i] = b.tx
			}
			res := B.Commit(txs)
			atomic.AddInt64(&blocks, 1)
			if len(batch) > 1 {
				atomic.AddInt64(&multi, 1)
			}
			ctx := B.Ctx()
			for i, b := range batch {
				x := res.Raw[i]
				ns := b.acc.Seq
				if a := B.App.AccountKeeper.GetAccount(ctx, b.acc.Addr); a != nil {
					ns = a.GetSequence()
				}
				b.resp <- submitResp{code: x.Code, log: x.Log, newSeq: ns, block: res.Height}
			}
		}
	}()
	R := 3 + rng.Intn(3)
	var ops []porcupine.Operation
	var opMu sync.Mutex
	var rwg sync.WaitGroup
	t0 := time.Now()
	for r := 0; r < R; r++ {
		rwg.Add(1)
		go func(r int) {
			defer rwg.Done()
			lr := rand.New(rand.NewSource(seed*7 + int64(run)*100 + int64(r)))
			acc := B.Accounts[r]
			order := lr.Perm(K)
			// every relayer tries most packets, some twice
			for _, i := range append(order, order[:K/2]...) {
				m := *msgs[i]
				m.Signer = acc.Addr.String()
				tx, err := B.BuildTx(acc, vnet.DefaultGas, &m)
				if err != nil {
					continue
				}
				resp := make(chan submitResp, 1)
				call := time.Since(t0).Nanoseconds()
				mempool <- submitReq{tx: tx, acc: acc, resp: resp}
				out := <-resp
				ret := time.Since(t0).Nanoseconds()
				acc.Seq = out.newSeq
				opMu.Lock()
				ops = append(ops, porcupine.Operation{ClientId: r, Input: i, Call: call, Output: out.code == 0, Return: ret})
				opMu.Unlock()
			}
		}(r)
	}
	rwg.Wait()
	close(done)
	pwg.Wait()
	model := porcupine.Model{
		Partition: func(history []porcupine.Operation) [][]porcupine.Operation {
			m := map[int][]porcupine.Operation{}
			for _, o := range history {
				m[o.Input.(int)] = append(m[o.Input.(int)], o)
			}
			var out [][]porcupine.Operation
			for _, v := range m {
				out = append(out, v)
			}
			return out
		},
		Init: func() interface{} { return false },
		Step: func(state, input, output interface{}) (bool, interface{}) {
			delivered := state.(bool)
			ok := output.(bool)
			if !delivered {
				return ok, true // the first receive of a committed packet must succeed
			}
			return !ok, true // every later one must fail
		},
		Equal: func(a, b interface{}) bool { return a.(bool) == b.(bool) },
	}
	res, _ := porcupine.CheckOperationsVerbose(model, ops, 60*time.Second)
	rec.Judge("concurrent-history", K, R, len(ops), res)
	rec.Count("concurrent-histories", 1)
	rec.Count("concurrent-submissions", int64(len(ops)))
	rec.Count("concurrent-multi-tx-blocks", atomic.LoadInt64(&multi))
	switch res {
	case porcupine.Illegal:
		rec.Violate("concurrent-receives-not-exactly-once", map[string]string{"relayers": fmt.Sprint(R)},
			fmt.Sprintf("history of %d submissions over %d packets by %d relayers is not linearizable against first-succeeds/rest-fail", len(ops), K, R), map[string]any{"ops": ops})
	case porcupine.Unknown:
		rec.Inconclusive("porcupine timed out on a concurrent-relayer history")
	}
	cbMu.Lock()
	for k, n := range cbCount {
		if n > 1 {
			rec.Violate("recv-callback-twice", map[string]string{"mut": "concurrent"}, fmt.Sprintf("%s processed %d times", k, n), nil)
		}
	}
	if len(cbCount) != K {
		rec.Violate("committed-packet-never-delivered", map[string]string{"mut": "concurrent"}, fmt.Sprintf("%d of %d packets delivered", len(cbCount), K), nil)
	}
	cbMu.Unlock()
	_ = w
}

// TestC02Race: the concurrent-relayer workload under the race detector (run.sh thorough).
func TestC02Race(t *testing.T) {
	if os.Getenv("VERIF_RACE_PASS") == "" {
		t.Skip("only run by run.sh in the race pass")
	}
	rec := mon.New("C02race", "exploration", "race pass")
	for run := 0; run < 12; run++ {
		concurrentRelayers(rec, mon.Seed(), 1000+run)
	}
	fmt.Printf("RACE-PASS concurrent_histories=%d submissions=%d unlisted_violations=%d\n", rec.Get("concurrent-histories"), rec.Get("concurrent-submissions"), rec.Unlisted())
	if rec.Unlisted() > 0 {
		fmt.Println("VIOLATION property=C02 replay=race-pass:concurrent-relayers")
		t.Fail()
	}
}
