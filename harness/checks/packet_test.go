package checks

import (
	"fmt"
	"math/rand"
	"sync"
	"testing"
	"time"

	"github.com/bianjieai/tibc-go/modules/tibc/testing/mock"

	"verif/mon"
	"verif/props"
	"verif/world"
)

const pktRule = "seeded histories on 3-4 real SimApp chains (sends from mock/NFT/MT apps, honest relays in random order, cleans, adversarial variants of every relayed message, replays); " +
	"one evaluation = one oracle judgement of one delivered message; distinct = distinct (message kind, mutation class, accepted?, role of the chain, error class, packet-shape) tuples"

// pktHistories runs the shared packet-layer workload with the given monitors.
func pktHistories(rec *mon.Recorder, n int, tune func(i int, c *world.PktCfg), monitors func() []world.Monitor) {
	histories(rec, n, func(i int, rng *rand.Rand) (*world.World, func()) {
		cfg := world.DefaultPktCfg()
		if i%4 == 3 {
			cfg.NChains = 4
		}
		cfg.FullMesh = i%3 == 0
		if tune != nil {
			tune(i, &cfg)
		}
		net := world.NewPktNetwork(mon.Seed()*7919+int64(i), rng, cfg)
		w := world.New(fmt.Sprintf("h%d", i), net, rng)
		w.Monitors = monitors()
		sim := world.NewPktSim(w, cfg, rng)
		return w, sim.Run
	})
}

// longPair turns a history into two chains exchanging many mock packets, so that sequences on one pair pass 10
// and 20 while cleans still sit at one-digit numbers (sequence keys are decimal strings: 1 < 10 < 2).
func longPair(c *world.PktCfg) {
	c.NChains, c.FullMesh, c.Tokens = 2, true, false
	c.Steps, c.PSend, c.PRelay, c.PClean, c.PAdv, c.PFailSend = 320, 0.3, 0.44, 0.13, 0.08, 0.02
}

func TestC01(t *testing.T) {
	rec := mon.New("C01", "exploration", pktRule)
	rec.Require("recv-accepted", "recv-rejected", "recv-accepted-mutated")
	pktHistories(rec, mon.Scale(48, 1600), func(i int, c *world.PktCfg) {
		c.PAdv, c.PRelay, c.AdvBatch = 0.3, 0.3, 8
		if i%4 == 1 { // clients with a confirmation delay
			c.Delay = 17 * time.Second
		}
	},
		func() []world.Monitor { return []world.Monitor{&props.C01{R: rec}} })
	setExit(rec.Finish())
}

func TestC02(t *testing.T) {
	rec := mon.New("C02", "exploration", pktRule)
	rec.Require("recv-callbacks", "honest-recv-expected-accept", "replay-after-accept-rejected")
	pktHistories(rec, mon.Scale(48, 1600), func(i int, c *world.PktCfg) {
		c.PAdv, c.PClean = 0.22, 0.14
		if i%2 == 1 { // every other history is clean-heavy: replays around and below clean points
			c.PClean, c.PRelay, c.PAdv, c.Steps = 0.25, 0.4, 0.12, 160
		}
		if i%6 == 5 {
			longPair(c)
		}
	},
		func() []world.Monitor { return []world.Monitor{&props.C02{R: rec}} })
	// concurrent relayers into one block producer, checked with porcupine
	rec.Require("concurrent-histories", "concurrent-multi-tx-blocks")
	var cwg sync.WaitGroup
	for run := 0; run < mon.Scale(12, 300); run++ {
		cwg.Add(1)
		go func(run int) {
			defer cwg.Done()
			defer func() {
				if r := recover(); r != nil {
					rec.Violate("panic", map[string]string{"history": "concurrent"}, fmt.Sprint(r), nil)
				}
			}()
			concurrentRelayers(rec, mon.Seed(), run)
		}(run)
		if run%8 == 7 {
			cwg.Wait()
		}
	}
	cwg.Wait()
	setExit(rec.Finish())
}

// emptyAckScenario delivers packets to an application that answers with an empty acknowledgement ([]byte{} and
// nil): nothing may be recorded for them. It runs alone because the mock application's answer is a package variable.
func emptyAckScenario(rec *mon.Recorder) {
	saved := mock.MockAcknowledgement
	defer func() { mock.MockAcknowledgement = saved }()
	for vi, v := range [][]byte{{}, nil} {
		rng := rand.New(rand.NewSource(mon.Seed()*31 + int64(vi)))
		cfg := world.DefaultPktCfg()
		cfg.NChains, cfg.FullMesh, cfg.Tokens, cfg.PRules = 2, true, false, 0
		net := world.NewPktNetwork(mon.Seed()*104729+int64(vi), rng, cfg)
		w := world.New(fmt.Sprintf("empty-ack-%d", vi), net, rng)
		w.Monitors = []world.Monitor{&props.C03{R: rec}}
		sim := world.NewPktSim(w, cfg, rng)
		for j := 0; j < 3; j++ {
			sim.Send()
		}
		mock.MockAcknowledgement = v
		for j := 0; j < 4 && !w.Stop; j++ {
			en := w.EnabledRelays()
			if len(en) == 0 {
				break
			}
			if a := w.Relay(en[rng.Intn(len(en))]); a != nil && a.Kind == "recv" {
				rec.Judge("empty-ack-delivery", a.Res.OK(), v == nil)
				if !a.Res.OK() {
					rec.Count("empty-ack-deliveries-refused", 1)
				}
			}
		}
		mock.MockAcknowledgement = saved
		for j := 0; j < 20 && !w.Stop && sim.RelayOne(); j++ {
		}
	}
}

func TestC03(t *testing.T) {
	rec := mon.New("C03", "exploration", pktRule)
	rec.Require("ack-accepted", "ack-rejected", "recorded-ack-checked", "ack-callbacks", "empty-ack-deliveries-refused")
	emptyAckScenario(rec)
	pktHistories(rec, mon.Scale(48, 1600), func(i int, c *world.PktCfg) {
		c.PAdv, c.PRelay = 0.25, 0.4
		if i%3 == 1 { // frequent whitelist changes on the relay chains, old relay-hop messages replayed after each
			c.PRules, c.Steps = 0.06, 160
		}
	},
		func() []world.Monitor { return []world.Monitor{&props.C03{R: rec}} })
	setExit(rec.Finish())
}

func TestC09(t *testing.T) {
	rec := mon.New("C09", "exploration", pktRule)
	rec.Require("send-ok", "send-failed")
	pktHistories(rec, mon.Scale(48, 1600), func(i int, c *world.PktCfg) { c.PSend, c.PFailSend, c.PAdv = 0.4, 0.15, 0.08 },
		func() []world.Monitor { return []world.Monitor{&props.C09{R: rec}} })
	// the token workload as well: returns of vouchers, partial amounts, sends of more than owned, relayed routes
	tokHistories(rec, mon.Scale(24, 800), func(i int, c *world.TokCfg) { c.Hostile, c.MissingClients = 0, i%3 },
		func() []world.Monitor { return []world.Monitor{&props.C09{R: rec}} })
	setExit(rec.Finish())
}

func TestC10(t *testing.T) {
	rec := mon.New("C10", "exploration", pktRule)
	rec.Require("clean-accepted", "clean-rejected", "recvclean-accepted", "recvclean-rejected", "msgs-at-or-below-clean-point")
	pktHistories(rec, mon.Scale(48, 1600), func(i int, c *world.PktCfg) {
		c.PClean, c.PRelay, c.PAdv, c.Steps = 0.25, 0.4, 0.12, 160
		if i%6 == 5 {
			longPair(c)
		}
	}, func() []world.Monitor { return []world.Monitor{&props.C10{R: rec}} })
	setExit(rec.Finish())
}

func TestC13(t *testing.T) {
	rec := mon.New("C13", "fault_enumeration", pktRule+"; for C13 every adversarial batch carries the complete port / relay-chain alteration matrix of the chosen message")
	rec.Require("altered-port-rejected", "unaltered-recv-accepted")
	pktHistories(rec, mon.Scale(48, 1600), func(i int, c *world.PktCfg) { c.PAdv, c.AdvBatch = 0.3, 0 },
		func() []world.Monitor { return []world.Monitor{&props.C13{R: rec}} })
	setExit(rec.Finish())
}
