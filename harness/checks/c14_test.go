package checks

import (
	"fmt"
	"math/rand"
	"sync"
	"testing"
	"time"

	sdk "github.com/cosmos/cosmos-sdk/types"
	"github.com/ethereum/go-ethereum/common"

	clienttypes "github.com/bianjieai/tibc-go/modules/tibc/core/02-client/types"
	packettypes "github.com/bianjieai/tibc-go/modules/tibc/core/04-packet/types"
	host "github.com/bianjieai/tibc-go/modules/tibc/core/24-host"
	"github.com/bianjieai/tibc-go/modules/tibc/core/exported"
	ibctm "github.com/bianjieai/tibc-go/modules/tibc/light-clients/07-tendermint/types"
	bsctypes "github.com/bianjieai/tibc-go/modules/tibc/light-clients/08-bsc/types"
	ethtypes "github.com/bianjieai/tibc-go/modules/tibc/light-clients/09-eth/types"

	"verif/model"
	"verif/mon"
	"verif/vnet"
	"verif/world"
)

// refStatus: Expired when age > period, Active when age < period, "" (not judged) at equality.
func refStatus(age, period int64) exported.Status {
	switch {
	case age > period:
		return exported.Expired
	case age < period:
		return exported.Active
	}
	return ""
}

func pickSub(rng *rand.Rand) int64 {
	return []int64{0, 1, 999_999_999, 500_000_000, int64(rng.Intn(1_000_000_000))}[rng.Intn(5)]
}

func TestC14(t *testing.T) {
	rec := mon.New("C14", "exploration",
		"(a) status triples: for each client type a client state + newest consensus state with generated (timestamp, trusting period) is stored in a real client store and Status() is evaluated at block times around the expiry boundary with every kind of sub-second part; compared with the reference in the client's own unit (age == period not judged). "+
			"(b) on real chains: after the clock passed the trusting period of a Tendermint client, header updates, receives, acknowledgements and receive-cleans proven through it (with genuine, otherwise acceptable proofs) must be refused, and must be accepted again inside the period. distinct = distinct (client type, boundary case, sub-second class) resp. (message kind, expired?) tuples")
	rec.Require("status/007-tendermint", "status/008-bsc", "status/009-eth", "expired-msg", "active-msg", "expired-relayed-msg")
	seed := mon.Seed()
	n := mon.Scale(12_000, 600_000)
	var wg sync.WaitGroup
	for wk := 0; wk < 16; wk++ {
		wg.Add(1)
		go func(wk int) {
			defer wg.Done()
			rng := rand.New(rand.NewSource(seed*53 + int64(wk)))
			net := vnet.New(seed, rng, []string{"alphachain"}, 1, 2)
			c := net.Chains[0]
			ck := c.App.TIBCKeeper.ClientKeeper
			cdc := c.App.AppCodec()
			base := c.Ctx()
			for i := 0; i < n/16; i++ {
				typ := i % 3
				ctx, _ := base.CacheContext()
				// period: 1 unit .. years
				var periodS int64
				switch rng.Intn(4) {
				case 0:
					periodS = 1 + int64(rng.Intn(5))
				case 1:
					periodS = 60 + int64(rng.Intn(86400))
				case 2:
					periodS = 86400 * (1 + int64(rng.Intn(1000)))
				default:
					periodS = 1 + int64(rng.Intn(1<<31))
				}
				ts := int64(1_600_000_000 + rng.Intn(100_000_000))
				// age in seconds around the boundary
				var ageS int64
				switch rng.Intn(6) {
				case 0:
					ageS = periodS
				case 1:
					ageS = periodS - 1
				case 2:
					ageS = periodS + 1
				case 3:
					ageS = rng.Int63n(periodS + 1)
				case 4:
					ageS = periodS + 1 + rng.Int63n(periodS*3+10)
				default:
					ageS = periodS*10 + rng.Int63n(1<<30) // long past
				}
				if ageS < 0 {
					ageS = 0
				}
				if rng.Intn(12) == 0 {
					// newest trusted state ahead of the block time (a header up to 15 s in the future is acceptable): well inside the period
					ageS = -int64(1 + rng.Intn(30))
				}
				sub := pickSub(rng)
				h := clienttypes.NewHeight(0, uint64(10+rng.Intn(1000)))
				name := "otherchain"
				store := ck.ClientStore(ctx, name)
				var got, want exported.Status
				var tname string
				switch typ {
				case 0:
					tname = exported.Tendermint
					tsub := pickSub(rng)
					cs := &ibctm.ClientState{ChainId: name, TrustingPeriod: time.Duration(periodS) * time.Second, LatestHeight: h}
					cons := &ibctm.ConsensusState{Timestamp: time.Unix(ts, tsub).UTC(), NextValidatorsHash: make([]byte, 32)}
					ck.SetClientConsensusState(ctx, name, h, cons)
					now := time.Unix(ts+ageS, sub).UTC()
					got = cs.Status(ctx.WithBlockTime(now), store, cdc)
					want = refStatus(now.Sub(cons.Timestamp).Nanoseconds(), int64(cs.TrustingPeriod))
				case 1:
					tname = exported.BSC
					cs := &bsctypes.ClientState{Header: bsctypes.Header{Height: h}, TrustingPeriod: uint64(periodS)}
					ck.SetClientConsensusState(ctx, name, h, &bsctypes.ConsensusState{Timestamp: uint64(ts), Number: h, Root: make([]byte, 32)})
					now := time.Unix(ts+ageS, sub).UTC()
					got = cs.Status(ctx.WithBlockTime(now), store, cdc)
					want = refStatus(now.Unix()-ts, periodS)
				case 2:
					tname = exported.ETH
					cs := &ethtypes.ClientState{Header: ethtypes.Header{Height: h}, TrustingPeriod: uint64(periodS)}
					ck.SetClientConsensusState(ctx, name, h, &ethtypes.ConsensusState{Timestamp: uint64(ts), Number: h, Root: make([]byte, 32)})
					now := time.Unix(ts+ageS, sub).UTC()
					got = cs.Status(ctx.WithBlockTime(now), store, cdc)
					want = refStatus(now.Unix()-ts, periodS)
				}
				bcase := "inside"
				switch {
				case ageS == periodS:
					bcase = "at-boundary-second"
				case ageS == periodS+1 || ageS == periodS-1:
					bcase = "adjacent"
				case ageS > periodS:
					bcase = "past"
				case ageS < 0:
					bcase = "state-ahead-of-block-time"
				}
				rec.Judge("status/"+tname, bcase, sub == 0, sub == 999_999_999, want, periodS < 10)
				if want == "" {
					rec.Count("status-boundary-not-judged", 1)
					continue
				}
				if got != want {
					rec.Violate("status-differs", map[string]string{"client": tname, "want": string(want), "got": string(got)},
						fmt.Sprintf("%s: newest consensus timestamp %d, trusting period %ds, block time %d.%09d: Status=%s, reference=%s", tname, ts, periodS, ts+ageS, sub, got, want), nil)
					if rec.Unlisted() > 5 {
						return
					}
				}
				if len(rec.Samples()) < 3 {
					rec.Sample(map[string]any{"client": tname, "timestamp": ts, "period_s": periodS, "block_time": fmt.Sprintf("%d.%09d", ts+ageS, sub), "status": got})
				}
			}
		}(wk)
	}
	wg.Wait()

	// (b) expired Tendermint clients on real chains
	histories(rec, mon.Scale(6, 120), func(i int, rng *rand.Rand) (*world.World, func()) {
		cfg := world.DefaultPktCfg()
		cfg.FullMesh = true
		cfg.Rules = [][]string{{"*,*,*"}}
		net := world.NewPktNetwork(seed*104723+int64(i), rng, cfg)
		w := world.New(fmt.Sprintf("exp%d", i), net, rng)
		return w, func() { expiredScenario(w, rng, rec) }
	})
	// (b') the same through a relay chain: A - B - C in a line (C has no client of A at all). A packet A->C via B is
	// proven to C through C's client of B, its acknowledgement to A through A's client of B
	histories(rec, mon.Scale(6, 120), func(i int, rng *rand.Rand) (*world.World, func()) {
		net := vnet.New(seed*104759+int64(i), rng, world.ChainNames[:3], 2, 4)
		net.Connect(net.Chains[0], net.Chains[1])
		net.Connect(net.Chains[1], net.Chains[2])
		net.SetRules(net.Chains[1], []string{"*,*,*"})
		w := world.New(fmt.Sprintf("exprelay%d", i), net, rng)
		return w, func() { expiredRelayScenario(w, rng, rec) }
	})
	// (c) BSC / ETH clients on the packet path: a genuine Merkle-Patricia proof through an active client is accepted,
	// the same kind of proof through an expired client is refused
	rec.Require("ethlike-active-accepted", "ethlike-expired-refused")
	for i := 0; i < mon.Scale(6, 60); i++ {
		ethLikeExpired(rec, rand.New(rand.NewSource(seed*977+int64(i))), seed*977+int64(i))
	}
	// (d) header updates of BSC / ETH clients around the expiry point: accepted while the newest state is inside the
	// trusting period, refused once it is older, also when it is only seconds older and the offered header itself is recent
	rec.Require("ethlike-update-active-accepted", "ethlike-update-expired-refused")
	ethtypes.VerifSkipSeal = true // synthetic ETH headers: only the ethash computation is skipped (hook H2)
	for i := 0; i < mon.Scale(8, 80); i++ {
		ethLikeUpdateExpiry(rec, rand.New(rand.NewSource(seed*1009+int64(i))), seed*1009+int64(i))
	}
	ethtypes.VerifSkipSeal = false
	setExit(rec.Finish())
}

// ethLikeUpdateExpiry: see (d) in TestC14.
func ethLikeUpdateExpiry(rec *mon.Recorder, rng *rand.Rand, seed int64) {
	net := vnet.New(seed, rng, []string{"alphachain"}, 1, 2)
	X := net.Chains[0]
	ck := X.App.TIBCKeeper.ClientKeeper
	bf, err := newBscFeed(X, rng, seed, "bsc-expiry")
	if err != nil {
		rec.Inconclusive(err.Error())
		return
	}
	ef, err := newEthFeed(X, rng, "eth-expiry")
	if err != nil {
		rec.Inconclusive(err.Error())
		return
	}
	newest := func(name string) uint64 {
		cs, _ := ck.GetClientState(X.Ctx(), name)
		st, _ := ck.GetClientConsensusState(X.Ctx(), name, cs.GetLatestHeight())
		switch v := st.(type) {
		case *bsctypes.ConsensusState:
			return v.Timestamp
		case *ethtypes.ConsensusState:
			return v.Timestamp
		}
		return 0
	}
	setTP := func(name string, tp uint64) {
		X.Exec(func(ctx sdk.Context) error {
			cs, _ := ck.GetClientState(ctx, name)
			switch v := cs.(type) {
			case *bsctypes.ClientState:
				v.TrustingPeriod = tp
				ck.SetClientState(ctx, name, v)
			case *ethtypes.ClientState:
				v.TrustingPeriod = tp
				ck.SetClientState(ctx, name, v)
			}
			return nil
		})
	}
	offer := func(typ, name string) *vnet.Result {
		if typ == exported.BSC {
			h, signer := bf.next(rng)
			if h == nil {
				return nil
			}
			r := bf.deliver(X, h)
			if r.OK() {
				bf.p.Apply(h, signer)
			}
			return r
		}
		parent := ef.tree.Latest
		h := synthChild(rng, parent)
		// a recent header: dated just before the block it is submitted in (if that is after its parent)
		if t := uint64(net.Now.Unix()) - uint64(rng.Intn(3)); t > parent.Time {
			h.Time = t
			h.Difficulty = model.ExpectedDifficulty(h.Time, parent)
		}
		r := ef.deliver(X, h)
		if r.OK() {
			ef.tree.Add(h)
			ef.nodes = append(ef.nodes, h)
		}
		return r
	}
	for _, c := range []struct{ typ, name string }{{exported.BSC, "bsc-expiry"}, {exported.ETH, "eth-expiry"}} {
		for round := 0; round < 4; round++ {
			// period such that the client is active now, with some room
			age := uint64(net.Now.Unix()) - newest(c.name)
			tp := age + 200 + uint64(rng.Intn(2000))
			setTP(c.name, tp)
			if r := offer(c.typ, c.name); r != nil {
				rec.Judge("ethlike-update/"+c.typ+"/active", r.OK())
				rec.Count("ethlike-update-active-accepted", 1)
				if !r.OK() {
					rec.Violate("active-client-refused", map[string]string{"msg": "update", "client": c.typ}, r.Log, nil)
					return
				}
			}
			// move the block time past newest + period: by 1..3 s, by up to a minute, or far
			var over uint64
			switch rng.Intn(3) {
			case 0:
				over = uint64(1 + rng.Intn(3))
			case 1:
				over = uint64(1 + rng.Intn(60))
			default:
				over = uint64(1 + rng.Intn(1_000_000))
			}
			target := time.Unix(int64(newest(c.name)+tp+over), int64(rng.Intn(1_000_000_000))).UTC()
			if !target.After(net.Now) {
				rec.Inconclusive("expiry scenario: clock already past the target")
				return
			}
			net.Now = target
			before := newest(c.name)
			if r := offer(c.typ, c.name); r != nil {
				rec.Judge("ethlike-update/"+c.typ+"/expired", r.OK(), over <= 3)
				rec.Count("ethlike-update-expired-refused", 1)
				if r.OK() || newest(c.name) != before {
					rec.Violate("expired-client-used", map[string]string{"msg": "update", "client": c.typ, "expired_by": map[bool]string{true: "1-3s", false: "more"}[over <= 3]},
						fmt.Sprintf("%s client whose newest state (%d) is %d s older than its trusting period (%d s) accepted a header update at block time %s", c.typ, before, over, tp, net.Now), nil)
					return
				}
			}
		}
	}
}

// ethLikeExpired: chain X gets an ETH and a BSC client of a synthetic Ethereum-style world that holds packet
// commitments destined to X; MsgRecvPacket with the genuine account+storage proof is delivered through BaseApp while the
// client is inside, then past, its trusting period.
func ethLikeExpired(rec *mon.Recorder, rng *rand.Rand, seed int64) {
	net := vnet.New(seed, rng, []string{"alphachain"}, 1, 3)
	X := net.Chains[0]
	var contract common.Address
	rng.Read(contract[:])
	for _, typ := range []string{exported.ETH, exported.BSC} {
		name := "eth-mainnet"
		if typ == exported.BSC {
			name = "bsc-mainnet"
		}
		storage := map[string][]byte{}
		var pkts []packettypes.Packet
		for q := uint64(1); q <= 4; q++ {
			p := packettypes.NewPacket([]byte(fmt.Sprintf("from-%s-%d", name, q)), q, name, X.Name, "", world.MockPort)
			pkts = append(pkts, p)
			storage[string(host.PacketCommitmentKey(name, X.Name, q))] = model.Word(world.Sha(p.Data))
		}
		w := model.NewEthWorld(contract, storage, 5)
		period := uint64(1000 + rng.Intn(100000))
		now := uint64(net.Now.Unix())
		hProof, hLatest := uint64(1000), uint64(1030)
		var cs exported.ClientState
		var consAt func(h uint64, ts uint64) exported.ConsensusState
		if typ == exported.ETH {
			cs = &ethtypes.ClientState{Header: ethtypes.Header{Height: clienttypes.NewHeight(0, hLatest), Difficulty: "1", BaseFee: "1"}, ChainId: 1, ContractAddress: contract[:], TrustingPeriod: period, BlockDelay: 3}
			consAt = func(h, ts uint64) exported.ConsensusState {
				return &ethtypes.ConsensusState{Timestamp: ts, Number: clienttypes.NewHeight(0, h), Root: w.Root[:]}
			}
		} else {
			vals := [][]byte{make([]byte, 20), make([]byte, 20), make([]byte, 20)}
			cs = &bsctypes.ClientState{Header: bsctypes.Header{Height: clienttypes.NewHeight(0, hLatest), Difficulty: 2, Extra: make([]byte, 97)}, ChainId: 56, Epoch: 200, BlockInteval: 3, Validators: vals, ContractAddress: contract[:], TrustingPeriod: period}
			consAt = func(h, ts uint64) exported.ConsensusState {
				return &bsctypes.ConsensusState{Timestamp: ts, Number: clienttypes.NewHeight(0, h), Root: w.Root[:]}
			}
		}
		// the client is installed directly in the store (header verification is C17/C18's subject)
		r := X.Exec(func(ctx sdk.Context) error {
			ck := X.App.TIBCKeeper.ClientKeeper
			ck.SetClientState(ctx, name, cs)
			ck.SetClientConsensusState(ctx, name, clienttypes.NewHeight(0, hProof), consAt(hProof, now-10))
			ck.SetClientConsensusState(ctx, name, clienttypes.NewHeight(0, hLatest), consAt(hLatest, now-5))
			return nil
		})
		if !r.OK() {
			rec.Inconclusive("could not install " + typ + " client")
			return
		}
		deliver := func(p packettypes.Packet) *vnet.Result {
			proof := w.Prove(host.PacketCommitmentKey(p.SourceChain, p.DestinationChain, p.Sequence)).JSON()
			m := packettypes.NewMsgRecvPacket(p, proof, clienttypes.NewHeight(0, hProof), X.Relayer.Addr)
			return X.Deliver(X.Relayer, m)
		}
		// inside the trusting period
		r1 := deliver(pkts[0])
		rec.Judge("ethlike/"+typ+"/active", r1.OK())
		if r1.OK() {
			rec.Count("ethlike-active-accepted", 1)
		} else {
			rec.Violate("active-client-refused", map[string]string{"msg": "recv", "client": typ}, r1.Log, nil)
		}
		// exactly at the boundary second (not judged), then past it
		net.Now = time.Unix(int64(now-5+period), int64(rng.Intn(1_000_000_000))).UTC()
		deliver(pkts[1])
		rec.Count("ethlike-boundary-not-judged", 1)
		net.Now = time.Unix(int64(now-5+period)+1+int64(rng.Intn(1000)), int64(rng.Intn(1_000_000_000))).UTC()
		r3 := deliver(pkts[2])
		rec.Judge("ethlike/"+typ+"/expired", r3.OK())
		rec.Count("ethlike-expired-refused", 1)
		if r3.OK() {
			rec.Violate("expired-client-used", map[string]string{"msg": "recv", "client": typ},
				fmt.Sprintf("%s accepted a receive proven through its %s client %d s past the trusting period", X.Name, typ, uint64(net.Now.Unix())-(now-5+period)), nil)
		} else if len(r3.Diff) != 0 {
			rec.Violate("refused-msg-changed-state", map[string]string{"msg": "recv"}, r3.Log, nil)
		}
	}
}

// expiredScenario prepares one pending receive, one pending ack and one pending
// receive-clean on chain B proven from A, lets B's client of A expire, and
// submits them; then repeats inside the trusting period on a fresh pair of packets.
func expiredScenario(w *world.World, rng *rand.Rand, rec *mon.Recorder) {
	cs := w.Net.Chains
	A, B := cs[0], cs[1]
	_ = A
	send := func(src, dst *vnet.Chain, tag string) *world.PacketRec {
		seq := world.NextSend(src, src.Name, dst.Name)
		p := packettypes.NewPacket([]byte(tag), seq, src.Name, dst.Name, "", world.MockPort)
		w.Do(&world.Action{Kind: "send-mock", On: src, Packet: &p, Exec: func(ctx sdk.Context) error { return src.App.TIBCKeeper.PacketKeeper.SendPacket(ctx, &p) }})
		return w.Packets[world.PKey{Src: src.Name, Dst: dst.Name, Seq: seq}]
	}
	relay := func(kind string, r *world.PacketRec, on, from *vnet.Chain) *world.Action {
		w.Fresh(on, from)
		var a *world.Action
		if kind == "recv" {
			a = w.HonestRecv(r, on, from, on.Relayer)
		} else {
			a = w.HonestAck(r, on, from, on.Relayer)
		}
		w.Do(a)
		return a
	}
	for round := 0; round < 2; round++ {
		expire := round == 1 // the active round comes first: the clock is shared by all chains
		if round == 0 {
			A, B = cs[1], cs[2]
		} else {
			A, B = cs[0], cs[1]
		}
		// packets A->B #k (for recv on B), B->A (for ack on B: needs receive on A first), cleaned pair A->B
		p1 := send(A, B, fmt.Sprintf("r%d-one", round))
		relay("recv", p1, B, A)
		relay("ack", p1, A, B) // acknowledged on A: A may clean
		cp := packettypes.NewCleanPacket(p1.Key.Seq, A.Name, B.Name, "")
		w.Do(&world.Action{Kind: "clean", On: A, Signer: A.Accounts[1], Clean: &cp, Msgs: []sdk.Msg{packettypes.NewMsgCleanPacket(cp, A.Accounts[1].Addr)}})
		p2 := send(A, B, fmt.Sprintf("r%d-two", round)) // pending receive on B
		p3 := send(B, A, fmt.Sprintf("r%d-three", round))
		relay("recv", p3, A, B) // A wrote the ack; pending ack on B
		if p2 == nil || p3 == nil || p3.AckBytes == nil {
			rec.Inconclusive("expired scenario could not prepare packets")
			return
		}
		// make everything provable on B at its current client height
		if !w.Fresh(B, A) {
			rec.Inconclusive("client refresh failed before expiry")
			return
		}
		recvA := w.HonestRecv(p2, B, A, B.Relayer)
		ackA := w.HonestAck(p3, B, A, B.Relayer)
		cleanA := w.HonestRecvClean(cp, B, A, B.Relayer)
		if expire {
			w.Net.Advance(vnet.DefaultClientCfg.TrustingPeriod + time.Duration(1+rng.Intn(1_000_000))*time.Second + time.Duration(rng.Intn(1_000_000_000)))
		} else {
			w.Net.Advance(time.Duration(rng.Intn(3600)) * time.Second)
		}
		// header update through the (expired) client
		w.Do(&world.Action{Kind: "block", On: A, Exec: func(sdk.Context) error { return nil }})
		um, _ := clienttypes.NewMsgUpdateClient(A.Name, vnet.UpdateHeader(B, A, 0), B.Relayer.Addr)
		upd := &world.Action{Kind: "update", On: B, From: A, Msgs: []sdk.Msg{um}, Signer: B.Relayer}
		if expire {
			// order: packets first (so that a successful update cannot "revive" anything), then the update
			for _, a := range []*world.Action{recvA, ackA, cleanA, upd} {
				w.Do(a)
				rec.Judge("expired/"+a.Kind, a.Res.OK(), round)
				rec.Count("expired-msg", 1)
				if a.Res.OK() {
					rec.Violate("expired-client-used", map[string]string{"msg": a.Kind, "client": exported.Tendermint},
						fmt.Sprintf("%s accepted a %s proven through its client of %s whose newest state is older than the trusting period", B.Name, a.Kind, A.Name), w.Witness(12))
				} else if len(a.Res.Diff) != 0 {
					rec.Violate("refused-msg-changed-state", map[string]string{"msg": a.Kind}, a.Res.Log, w.Witness(6))
				}
			}
		} else {
			for _, a := range []*world.Action{upd, recvA, ackA, cleanA} {
				w.Do(a)
				rec.Judge("active/"+a.Kind, a.Res.OK(), round)
				rec.Count("active-msg", 1)
				if !a.Res.OK() {
					rec.Violate("active-client-refused", map[string]string{"msg": a.Kind}, a.Res.Log, w.Witness(12))
				}
			}
		}
	}
}

// expiredRelayScenario: see (b') in TestC14.
func expiredRelayScenario(w *world.World, rng *rand.Rand, rec *mon.Recorder) {
	cs := w.Net.Chains
	A, B, C := cs[0], cs[1], cs[2]
	send := func(tag string) *world.PacketRec {
		seq := world.NextSend(A, A.Name, C.Name)
		p := packettypes.NewPacket([]byte(tag), seq, A.Name, C.Name, B.Name, world.MockPort)
		w.Do(&world.Action{Kind: "send-mock", On: A, Packet: &p, Exec: func(ctx sdk.Context) error { return A.App.TIBCKeeper.PacketKeeper.SendPacket(ctx, &p) }})
		return w.Packets[world.PKey{Src: A.Name, Dst: C.Name, Seq: seq}]
	}
	hop := func(kind string, r *world.PacketRec, on, from *vnet.Chain) *world.Action {
		if !w.Fresh(on, from) {
			return nil
		}
		var a *world.Action
		if kind == "recv" {
			a = w.HonestRecv(r, on, from, on.Relayer)
		} else {
			a = w.HonestAck(r, on, from, on.Relayer)
		}
		return a
	}
	do := func(a *world.Action) bool {
		if a == nil {
			return false
		}
		w.Do(a)
		return a.Res.OK()
	}
	// inside the trusting period: the whole relayed round trip works
	p1 := send("relay-one")
	active := []*world.Action{}
	for _, st := range []struct {
		kind     string
		on, from *vnet.Chain
	}{{"recv", B, A}, {"recv", C, B}} {
		a := hop(st.kind, p1, st.on, st.from)
		active = append(active, a)
		if !do(a) {
			rec.Violate("active-client-refused", map[string]string{"msg": st.kind, "route": "relayed"}, fmt.Sprint(a != nil && a.Res != nil && a.Res.Log != ""), w.Witness(12))
			return
		}
		rec.Judge("active-relayed/"+st.kind, st.on.Name)
		rec.Count("active-msg", 1)
	}
	// second packet forwarded by B; p1's acknowledgement passed back to B: both last hops stay pending
	p2 := send("relay-two")
	if !do(hop("recv", p2, B, A)) || !do(hop("ack", p1, B, C)) {
		rec.Inconclusive("relayed expiry scenario could not prepare its packets")
		return
	}
	recvC := hop("recv", p2, C, B)
	ackA := hop("ack", p1, A, B)
	if recvC == nil || ackA == nil {
		rec.Inconclusive("relayed expiry scenario could not refresh the clients")
		return
	}
	w.Net.Advance(vnet.DefaultClientCfg.TrustingPeriod + time.Duration(1+rng.Intn(1_000_000))*time.Second + time.Duration(rng.Intn(1_000_000_000)))
	for _, a := range []*world.Action{recvC, ackA} {
		w.Do(a)
		rec.Judge("expired-relayed/"+a.Kind, a.Res.OK(), a.On.Name)
		rec.Count("expired-msg", 1)
		rec.Count("expired-relayed-msg", 1)
		if a.Res.OK() {
			rec.Violate("expired-client-used", map[string]string{"msg": a.Kind, "client": exported.Tendermint, "route": "relayed"},
				fmt.Sprintf("%s accepted a relayed %s proven through its client of %s whose newest state is older than the trusting period", a.On.Name, a.Kind, B.Name), w.Witness(12))
		} else if len(a.Res.Diff) != 0 {
			rec.Violate("refused-msg-changed-state", map[string]string{"msg": a.Kind}, a.Res.Log, w.Witness(6))
		}
	}
}
