package checks

import (
	"fmt"
	"math/rand"
	"reflect"
	"testing"

	sdk "github.com/cosmos/cosmos-sdk/types"

	routingtypes "github.com/bianjieai/tibc-go/modules/tibc/core/26-routing/types"

	packettypes "github.com/bianjieai/tibc-go/modules/tibc/core/04-packet/types"

	"verif/mon"
	"verif/props"
	"verif/vnet"
	"verif/world"
)

type c11op struct {
	kind    string // nft | mt | mock | nft-back | mt-back
	fromA   bool
	n       int
	amount  uint64
	badRecv bool
	toD     bool // destination the relay chain does not know
}

func c11Script(rng *rand.Rand, allowOnly bool) []c11op {
	var ops []c11op
	n := 3 + rng.Intn(4)
	for i := 0; i < n; i++ {
		op := c11op{kind: []string{"nft", "mt", "mock", "nft", "mt"}[rng.Intn(5)], fromA: rng.Intn(3) != 0, n: i, amount: uint64(1 + rng.Intn(500)), badRecv: rng.Intn(4) == 0}
		if !allowOnly && rng.Intn(6) == 0 {
			op.toD = true
		}
		ops = append(ops, op)
	}
	return ops
}

// c11Net: A, B (relay), C fully connected; D unconnected (unknown destination for B).
func c11Net(seed int64, rng *rand.Rand, rules []string) *vnet.Network {
	n := vnet.New(seed, rng, world.ChainNames, 2, 4)
	cs := n.Chains
	n.Connect(cs[0], cs[1])
	n.Connect(cs[1], cs[2])
	n.Connect(cs[0], cs[2])
	if rules != nil {
		n.SetRules(cs[1], rules)
	}
	return n
}

func drain(w *world.World, rng *rand.Rand, max int) {
	for i := 0; i < max && !w.Stop; i++ {
		en := w.EnabledRelays()
		if len(en) == 0 {
			return
		}
		w.Relay(en[rng.Intn(len(en))])
	}
}

// runScript performs the user operations (interleaved with random relaying) with the given relay chain name ("" = direct).
func runScript(w *world.World, rng *rand.Rand, ops []c11op, relay string, between func()) {
	cs := w.Net.Chains
	A, C, D := cs[0], cs[2], cs[3]
	for _, op := range ops {
		if w.Stop {
			return
		}
		if between != nil {
			between()
		}
		src, dst := A, C
		if !op.fromA {
			src, dst = C, A
		}
		if op.toD {
			dst = D
		}
		u := src.Accounts[1]
		recv := dst.Accounts[2].Addr.String()
		if op.badRecv {
			recv = "bad-receiver"
		}
		switch op.kind {
		case "nft":
			class := fmt.Sprintf("relaycls%d", op.n%2)
			if !src.App.NftKeeper.HasDenom(src.Ctx(), class) {
				w.IssueNftClass(src, u, class)
			}
			id := fmt.Sprintf("tok%d", op.n)
			w.MintNft(src, u, class, id, u.Addr)
			w.SendNft(src, u, class, id, recv, dst.Name, relay)
		case "mt":
			den, _ := w.IssueMtDenom(src, u, "relaymt")
			id, _ := w.MintMt(src, u, den, "", op.amount+10, u.Addr)
			if den != "" && id != "" {
				w.SendMt(src, u, den, id, op.amount, recv, dst.Name, relay)
			}
		case "mock":
			seq := world.NextSend(src, src.Name, dst.Name)
			p := packettypes.NewPacket([]byte(fmt.Sprintf("mock-%d", op.n)), seq, src.Name, dst.Name, relay, world.MockPort)
			w.Do(&world.Action{Kind: "send-mock", On: src, Packet: &p, Exec: func(ctx sdk.Context) error { return src.App.TIBCKeeper.PacketKeeper.SendPacket(ctx, &p) }})
		}
		// relay a few steps in random order before the next user action
		drain(w, rng, rng.Intn(5))
	}
	drain(w, rng, 400)
}

type tokState struct {
	Nft []world.NftHolding
	Bal []world.MtBal
	Sup map[[2]string]uint64
}

func tokenState(c *vnet.Chain) tokState {
	b, s := world.MtSnapshot(c)
	return tokState{Nft: world.NftSnapshot(c), Bal: b, Sup: s}
}

func TestC11(t *testing.T) {
	rec := mon.New("C11", "exploration",
		"4 chains (A, relay B, C fully connected; D unknown to B), random rule sets on B, scripts of 3-6 NFT/MT/mock transfers in both directions through B with success and error outcomes on the destination, relayer actions drained in random order; every step on B judged (re-commit iff whitelisted and destination known, else error ack; acks stored unchanged; no callbacks, no token effects); "+
			"twin runs: the same script with allow-all rules through B and over a direct route must end in identical token state on A and C. distinct = distinct (rule decision, destination known, port, outcome, role) tuples")
	rec.Require("relay-forwarded", "relay-denied", "acks-passed-back", "error-acks-passed-back", "twin-compared", "whitelist-replaced", "whitelist-revoked")
	seed := mon.Seed()
	n := mon.Scale(40, 1200)
	histories(rec, n, func(i int, rng *rand.Rand) (*world.World, func()) {
		names := world.ChainNames
		a, b, c := names[0], names[1], names[2]
		ruleSets := [][]string{
			{"*,*,*"}, {a + ",*,*"}, {"*,*,NFT"}, {a + "," + c + "," + world.MockPort, "*,*,MT"}, nil, {c + ",*,*"}, {"*," + c + ",*"}, {"*,*,*"},
		}
		rules := ruleSets[i%len(ruleSets)]
		twin := i%len(ruleSets) == 0
		net := c11Net(seed*1009+int64(i), rng, rules)
		w := world.New(fmt.Sprintf("relay%d", i), net, rng)
		w.Monitors = []world.Monitor{&props.C11{R: rec, Rules: map[string][]string{b: rules}}}
		ops := c11Script(rand.New(rand.NewSource(seed*77+int64(i))), twin)
		mon11 := w.Monitors[0].(*props.C11)
		B := net.Chains[1]
		// governance replaces the whitelist of the relay chain between transfers (also by the empty list, which revokes
		// everything); packets in flight are judged by the rules in force when they reach the relay chain
		reRule := func() {
			if twin || rng.Intn(3) != 0 {
				return
			}
			nr := append([][]string{{}, {}}, ruleSets...)[rng.Intn(len(ruleSets)+2)]
			if nr == nil {
				nr = []string{}
			}
			msg := &routingtypes.MsgSetRoutingRules{Title: "t", Description: "d", Rules: nr, Authority: B.GovAddr}
			r := w.Do(&world.Action{Kind: "gov-rules", On: B, Note: fmt.Sprint(nr), Exec: func(ctx sdk.Context) error {
				_, err := B.App.MsgServiceRouter().Handler(msg)(ctx, msg)
				return err
			}})
			if r.OK() {
				mon11.Rules[b] = nr
				rec.Count("whitelist-replaced", 1)
				if len(nr) == 0 {
					rec.Count("whitelist-revoked", 1)
				}
			}
		}
		return w, func() {
			runScript(w, rng, ops, b, reRule)
			if !twin || w.Stop {
				return
			}
			// twin: same keys, same script, direct route
			rng2 := rand.New(rand.NewSource(seed*1_000_003 + int64(i)))
			net2 := c11Net(seed*1009+int64(i), rng2, rules)
			w2 := world.New(fmt.Sprintf("relay%d-direct", i), net2, rng2)
			runScript(w2, rng2, ops, "", nil)
			for _, idx := range []int{0, 2} {
				s1, s2 := tokenState(net.Chains[idx]), tokenState(net2.Chains[idx])
				rec.Judge("twin", idx, len(ops), len(s1.Nft), len(s1.Bal))
				rec.Count("twin-compared", 1)
				if !reflect.DeepEqual(s1, s2) {
					rec.Violate("relayed-differs-from-direct", map[string]string{"chain": net.Chains[idx].Name},
						fmt.Sprintf("token state after the relayed run: %+v\nafter the direct run: %+v", s1, s2), map[string]any{"relayed": w.Witness(30), "direct": w2.Witness(30)})
				}
			}
			if len(tokenState(net.Chains[1]).Nft) != 0 || len(tokenState(net.Chains[1]).Bal) != 0 {
				rec.Violate("token-state-on-relay-chain", nil, fmt.Sprintf("%+v", tokenState(net.Chains[1])), w.Witness(20))
			}
		}
	})
	setExit(rec.Finish())
}
