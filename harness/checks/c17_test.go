package checks

import (
	"bytes"
	"crypto/ecdsa"
	"encoding/json"
	"fmt"
	"math/rand"
	"os"
	"sync"
	"testing"

	"github.com/ethereum/go-ethereum/common"
	"github.com/ethereum/go-ethereum/crypto"

	clienttypes "github.com/bianjieai/tibc-go/modules/tibc/core/02-client/types"
	bsctypes "github.com/bianjieai/tibc-go/modules/tibc/light-clients/08-bsc/types"

	"verif/model"
	"verif/mon"
	"verif/vnet"
)

func toPHeader(h *bsctypes.BscHeader) model.PHeader {
	p := model.PHeader{ParentHash: h.ParentHash, UncleHash: h.UncleHash, Coinbase: h.Coinbase, Root: h.Root, TxHash: h.TxHash, ReceiptHash: h.ReceiptHash,
		Difficulty: h.Difficulty.Uint64(), Number: h.Number.Uint64(), GasLimit: h.GasLimit, GasUsed: h.GasUsed, Time: h.Time, Extra: h.Extra, MixDigest: h.MixDigest}
	copy(p.Bloom[:], h.Bloom[:])
	copy(p.Nonce[:], h.Nonce[:])
	return p
}

func toBscHeader(p *model.PHeader) *bsctypes.Header {
	return &bsctypes.Header{
		ParentHash: p.ParentHash[:], UncleHash: p.UncleHash[:], Coinbase: p.Coinbase[:], Root: p.Root[:], TxHash: p.TxHash[:], ReceiptHash: p.ReceiptHash[:],
		Bloom: p.Bloom[:], Difficulty: p.Difficulty, Height: clienttypes.NewHeight(0, p.Number), GasLimit: p.GasLimit, GasUsed: p.GasUsed, Time: p.Time,
		Extra: append([]byte{}, p.Extra...), MixDigest: p.MixDigest[:], Nonce: p.Nonce[:],
	}
}

func addrBytes(a []common.Address) [][]byte {
	out := make([][]byte, len(a))
	for i := range a {
		out[i] = append([]byte{}, a[i][:]...)
	}
	return out
}

// the reference model must reproduce the recorded mainnet chain before it is trusted
func c17ValidateModel(rec *mon.Recorder) bool {
	type gen struct {
		GenesisHeader          *bsctypes.BscHeader `json:"genesis_header"`
		GenesisValidatorHeader *bsctypes.BscHeader `json:"genesis_validator_header"`
	}
	var g gen
	bz, err := os.ReadFile("/repo/modules/tibc/light-clients/08-bsc/types/testdata/genesis_state.json")
	if err != nil || json.Unmarshal(bz, &g) != nil {
		rec.Inconclusive("cannot read recorded BSC genesis")
		return false
	}
	var hs []*bsctypes.BscHeader
	bz, err = os.ReadFile("/repo/modules/tibc/light-clients/08-bsc/types/testdata/update_headers.json")
	if err != nil || json.Unmarshal(bz, &hs) != nil {
		rec.Inconclusive("cannot read recorded BSC headers")
		return false
	}
	cur, _ := bsctypes.ParseValidators(g.GenesisValidatorHeader.Extra)
	pend, _ := bsctypes.ParseValidators(g.GenesisHeader.Extra)
	toA := func(b [][]byte) []common.Address {
		var o []common.Address
		for _, x := range b {
			o = append(o, common.BytesToAddress(x))
		}
		return o
	}
	p := model.NewParlia(56, 200, toPHeader(g.GenesisHeader), toA(cur), toA(pend))
	for i, h := range hs {
		ph := toPHeader(h)
		v := p.Check(&ph)
		if !v.Accept {
			rec.Inconclusive(fmt.Sprintf("reference Parlia model rejects recorded mainnet header %d (%s)", i, v.Clause))
			return false
		}
		p.Apply(&ph, v.Signer)
	}
	rec.Extra("model_validated_on_recorded_mainnet_headers", len(hs))
	return true
}

type bscGen struct {
	rng     *rand.Rand
	keys    []*ecdsa.PrivateKey
	addr    []common.Address
	byAddr  map[common.Address]*ecdsa.PrivateKey
	chainID uint64
	epoch   uint64
}

func newBscGen(rng *rand.Rand, seed int64) *bscGen {
	g := &bscGen{rng: rng, byAddr: map[common.Address]*ecdsa.PrivateKey{}, chainID: 56 + uint64(rng.Intn(3)), epoch: uint64(8 + rng.Intn(57))}
	for i := 0; i < 26; i++ {
		k, _ := crypto.ToECDSA(crypto.Keccak256([]byte(fmt.Sprintf("c17/%d/%d", seed, i))))
		g.keys = append(g.keys, k)
		a := crypto.PubkeyToAddress(k.PublicKey)
		g.addr = append(g.addr, a)
		g.byAddr[a] = k
	}
	return g
}

func (g *bscGen) randSet(n int) []common.Address {
	perm := g.rng.Perm(len(g.addr) - 2) // the last two keys never become validators
	var o []common.Address
	for _, i := range perm[:n] {
		o = append(o, g.addr[i])
	}
	return o
}

func (g *bscGen) setSize() int {
	switch g.rng.Intn(5) {
	case 0:
		return 1
	case 1:
		return 21
	case 2:
		return 2 + g.rng.Intn(3)
	}
	return 1 + g.rng.Intn(21)
}

func extraWith(vals []common.Address, junk int) []byte {
	e := make([]byte, 32)
	for _, v := range vals {
		e = append(e, v[:]...)
	}
	e = append(e, make([]byte, junk)...)
	return append(e, make([]byte, 65)...)
}

// child builds a valid child of p.Latest sealed by signer.
func (g *bscGen) child(p *model.Parlia, signer common.Address, nextSet []common.Address) model.PHeader {
	h := model.PHeader{ParentHash: p.Latest.Hash(), UncleHash: common.HexToHash("0x1dcc4de8dec75d7aab85b567b6ccd41ad312451b948a7413f0a142fd40d49347"), Coinbase: signer,
		Number: p.Latest.Number + 1, Time: p.Latest.Time + 3, GasUsed: uint64(g.rng.Intn(1000))}
	g.rng.Read(h.Root[:])
	g.rng.Read(h.TxHash[:])
	g.rng.Read(h.ReceiptHash[:])
	lim := p.Latest.GasLimit / 256
	delta := int64(0)
	if lim > 1 {
		delta = g.rng.Int63n(int64(lim)*2-1) - int64(lim) + 1
	}
	h.GasLimit = uint64(int64(p.Latest.GasLimit) + delta)
	if h.GasLimit < 5000 {
		h.GasLimit = p.Latest.GasLimit
	}
	n := uint64(len(p.Validators))
	h.Difficulty = 1
	if p.Validators[h.Number%n] == signer {
		h.Difficulty = 2
	}
	if h.Number%p.Epoch == 0 {
		h.Extra = extraWith(nextSet, 0)
	} else {
		h.Extra = extraWith(nil, 0)
	}
	h.Seal(g.chainID, g.byAddr[signer])
	return h
}

type corruption struct {
	name string
	f    func(h *model.PHeader, p *model.Parlia, g *bscGen) bool // returns false if not applicable
}

func reseal(h *model.PHeader, g *bscGen, signer common.Address) { h.Seal(g.chainID, g.byAddr[signer]) }

// the sealer of every block of the last n/2+2 (the whole recent-signer window of the current set, its oldest entry
// and the first one outside it) offers the next block: after a set change the window is the new set's
func init() {
	for k := uint64(2); k <= 12; k++ {
		k := k
		c17Corruptions = append(c17Corruptions, corruption{fmt.Sprintf("sealed-by-signer-of-block-minus-%d", k), func(h *model.PHeader, p *model.Parlia, g *bscGen) bool {
			n := uint64(len(p.Validators))
			s, ok := p.History[h.Number-k]
			if k > n/2+2 || !ok || g.byAddr[s] == nil {
				return false
			}
			h.Coinbase = s
			h.Difficulty = 1
			if p.Validators[h.Number%n] == s {
				h.Difficulty = 2
			}
			reseal(h, g, s)
			return true
		}})
	}
}

var c17Corruptions = []corruption{
	{"parent-hash", func(h *model.PHeader, p *model.Parlia, g *bscGen) bool {
		h.ParentHash[3] ^= 1
		reseal(h, g, h.Coinbase)
		return true
	}},
	{"number+1", func(h *model.PHeader, p *model.Parlia, g *bscGen) bool {
		h.Number++
		reseal(h, g, h.Coinbase)
		return true
	}},
	{"number-1", func(h *model.PHeader, p *model.Parlia, g *bscGen) bool {
		h.Number--
		reseal(h, g, h.Coinbase)
		return true
	}},
	{"coinbase-other-validator", func(h *model.PHeader, p *model.Parlia, g *bscGen) bool {
		s := h.Coinbase
		for _, v := range p.Validators {
			if v != s {
				h.Coinbase = v
				reseal(h, g, s)
				return true
			}
		}
		return false
	}},
	{"non-member-signer", func(h *model.PHeader, p *model.Parlia, g *bscGen) bool {
		o := g.addr[len(g.addr)-1]
		h.Coinbase = o
		reseal(h, g, o)
		return true
	}},
	{"recently-signed-signer", func(h *model.PHeader, p *model.Parlia, g *bscGen) bool {
		n := uint64(len(p.Validators))
		for k := uint64(1); k <= n/2; k++ {
			if s, ok := p.History[h.Number-k]; ok {
				h.Coinbase = s
				h.Difficulty = 1
				if p.Validators[h.Number%n] == s {
					h.Difficulty = 2
				}
				reseal(h, g, s)
				return true
			}
		}
		return false
	}},
	{"difficulty-swapped", func(h *model.PHeader, p *model.Parlia, g *bscGen) bool {
		h.Difficulty = 3 - h.Difficulty
		reseal(h, g, h.Coinbase)
		return true
	}},
	{"difficulty-zero", func(h *model.PHeader, p *model.Parlia, g *bscGen) bool {
		h.Difficulty = 0
		reseal(h, g, h.Coinbase)
		return true
	}},
	{"difficulty-3", func(h *model.PHeader, p *model.Parlia, g *bscGen) bool {
		h.Difficulty = 3
		reseal(h, g, h.Coinbase)
		return true
	}},
	{"gas-limit-at-upper-bound", func(h *model.PHeader, p *model.Parlia, g *bscGen) bool {
		h.GasLimit = p.Latest.GasLimit + p.Latest.GasLimit/256
		reseal(h, g, h.Coinbase)
		return true
	}},
	{"gas-limit-just-inside-upper-bound", func(h *model.PHeader, p *model.Parlia, g *bscGen) bool {
		if p.Latest.GasLimit/256 < 1 {
			return false
		}
		h.GasLimit = p.Latest.GasLimit + p.Latest.GasLimit/256 - 1
		reseal(h, g, h.Coinbase)
		return true
	}},
	{"gas-limit-at-lower-bound", func(h *model.PHeader, p *model.Parlia, g *bscGen) bool {
		h.GasLimit = p.Latest.GasLimit - p.Latest.GasLimit/256
		if h.GasUsed > h.GasLimit {
			h.GasUsed = 0
		}
		reseal(h, g, h.Coinbase)
		return true
	}},
	{"gas-limit-just-inside-lower-bound", func(h *model.PHeader, p *model.Parlia, g *bscGen) bool {
		if p.Latest.GasLimit/256 < 1 {
			return false
		}
		h.GasLimit = p.Latest.GasLimit - p.Latest.GasLimit/256 + 1
		if h.GasUsed > h.GasLimit {
			h.GasUsed = 0
		}
		reseal(h, g, h.Coinbase)
		return true
	}},
	{"gas-used-above-limit", func(h *model.PHeader, p *model.Parlia, g *bscGen) bool {
		h.GasUsed = h.GasLimit + 1
		reseal(h, g, h.Coinbase)
		return true
	}},
	{"gas-limit-above-cap", func(h *model.PHeader, p *model.Parlia, g *bscGen) bool {
		h.GasLimit = 1 << 63
		reseal(h, g, h.Coinbase)
		return true
	}},
	{"validators-on-non-epoch-block", func(h *model.PHeader, p *model.Parlia, g *bscGen) bool {
		if h.Number%p.Epoch == 0 {
			return false
		}
		h.Extra = extraWith(g.randSet(1+g.rng.Intn(3)), 0)
		reseal(h, g, h.Coinbase)
		return true
	}},
	{"epoch-extra-not-multiple-of-20", func(h *model.PHeader, p *model.Parlia, g *bscGen) bool {
		if h.Number%p.Epoch != 0 {
			return false
		}
		h.Extra = extraWith(g.randSet(2), 1+g.rng.Intn(19))
		reseal(h, g, h.Coinbase)
		return true
	}},
	{"junk-bytes-on-non-epoch-block", func(h *model.PHeader, p *model.Parlia, g *bscGen) bool {
		if h.Number%p.Epoch == 0 {
			return false
		}
		h.Extra = extraWith(nil, 1+g.rng.Intn(19))
		reseal(h, g, h.Coinbase)
		return true
	}},
	{"mix-digest", func(h *model.PHeader, p *model.Parlia, g *bscGen) bool {
		h.MixDigest[5] = 1
		reseal(h, g, h.Coinbase)
		return true
	}},
	{"uncle-hash", func(h *model.PHeader, p *model.Parlia, g *bscGen) bool {
		h.UncleHash[5] ^= 1
		reseal(h, g, h.Coinbase)
		return true
	}},
	{"short-extra", func(h *model.PHeader, p *model.Parlia, g *bscGen) bool { h.Extra = make([]byte, 32+10); return true }},
	{"damaged-seal", func(h *model.PHeader, p *model.Parlia, g *bscGen) bool { h.Extra[len(h.Extra)-20] ^= 0x40; return true }},
	{"seal-recovery-id", func(h *model.PHeader, p *model.Parlia, g *bscGen) bool { h.Extra[len(h.Extra)-1] ^= 1; return true }},
	{"other-chain-id", func(h *model.PHeader, p *model.Parlia, g *bscGen) bool {
		h.Seal(g.chainID+1, g.byAddr[h.Coinbase])
		return true
	}},
	{"field-changed-after-sealing", func(h *model.PHeader, p *model.Parlia, g *bscGen) bool { h.Root[0] ^= 1; return true }},
	{"out-of-turn-eligible-signer", func(h *model.PHeader, p *model.Parlia, g *bscGen) bool {
		// a valid alternative: another eligible validator with the matching difficulty
		n := uint64(len(p.Validators))
		for _, v := range p.Validators {
			if v == h.Coinbase {
				continue
			}
			recent := false
			for k := uint64(1); k <= n/2; k++ {
				if s, ok := p.History[h.Number-k]; ok && s == v {
					recent = true
				}
			}
			if !recent {
				h.Coinbase = v
				h.Difficulty = 1
				if p.Validators[h.Number%n] == v {
					h.Difficulty = 2
				}
				reseal(h, g, v)
				return true
			}
		}
		return false
	}},
}

func TestC17(t *testing.T) {
	rec := mon.New("C17", "fault_enumeration",
		"synthetic BSC chains sealed with generated secp256k1 keys: validator sets of 1-21 members, epochs of 8-64 blocks, a set change at every epoch (grow, shrink, rotate, to 1, to 21), in-turn and out-of-turn eligible signers; at every position every single-field corruption of the valid next header (27 kinds, re-sealed so that only the intended clause fails, incl. values exactly at and just inside the gas-limit bound) is offered on a branched context and compared with a reference Parlia-light model (validated first on the 300 recorded mainnet headers), then the valid header is applied and ClientState.Header / Validators / consensus state compared. "+
			"distinct = distinct (corruption kind, reference clause, set size, epoch position class) tuples")
	rec.Require("valid-accepted", "rejected/recently-signed", "rejected/not-a-validator", "rejected/difficulty", "rejected/gas-limit-bound", "rejected/validators-on-non-epoch-block", "rotations-checked")
	if !c17ValidateModel(rec) {
		setExit(rec.Finish())
		return
	}
	seed := mon.Seed()
	nChains := mon.Scale(24, 600)
	blocks := mon.Scale(90, 220)
	var wg sync.WaitGroup
	jobs := make(chan int)
	for wk := 0; wk < 16; wk++ {
		wg.Add(1)
		go func() {
			defer wg.Done()
			for j := range jobs {
				rng := rand.New(rand.NewSource(seed*7349 + int64(j)))
				c17Chain(rec, rng, seed*7349+int64(j), blocks)
			}
		}()
	}
	for j := 0; j < nChains; j++ {
		jobs <- j
	}
	close(jobs)
	wg.Wait()
	setExit(rec.Finish())
}

func c17Chain(rec *mon.Recorder, rng *rand.Rand, seed int64, blocks int) {
	net := vnet.New(seed, rng, []string{"alphachain"}, 1, 2)
	c := net.Chains[0]
	ck := c.App.TIBCKeeper.ClientKeeper
	g := newBscGen(rng, seed)
	name := "bsc-synthetic"
	cur := g.randSet(g.setSize())
	pend := g.randSet(g.setSize())
	gen := model.PHeader{Number: g.epoch * uint64(3+rng.Intn(5)), Time: 1_600_000_000, GasLimit: uint64(20_000_000 + rng.Intn(60_000_000)), Difficulty: 2,
		UncleHash: common.HexToHash("0x1dcc4de8dec75d7aab85b567b6ccd41ad312451b948a7413f0a142fd40d49347"), Extra: extraWith(pend, 0), Coinbase: cur[0]}
	gen.Seal(g.chainID, g.byAddr[cur[0]])
	p := model.NewParlia(g.chainID, g.epoch, gen, cur, pend)
	cs := &bsctypes.ClientState{Header: *toBscHeader(&gen), ChainId: g.chainID, Epoch: g.epoch, BlockInteval: 3, Validators: addrBytes(p.Validators), ContractAddress: make([]byte, 20), TrustingPeriod: 1 << 40}
	h0 := clienttypes.NewHeight(0, gen.Number)
	ctx := c.Ctx()
	if err := ck.CreateClient(ctx, name, cs, &bsctypes.ConsensusState{Timestamp: gen.Time, Number: h0, Root: gen.Root[:]}); err != nil {
		rec.Inconclusive("create bsc client: " + err.Error())
		return
	}
	judge := func(kind string, h *model.PHeader) (accepted bool, ok bool) {
		v := p.Check(h)
		cctx, _ := ctx.CacheContext()
		var err error
		func() {
			defer func() {
				if r := recover(); r != nil {
					err = fmt.Errorf("panic: %v", r)
				}
			}()
			err = ck.UpdateClient(cctx, name, toBscHeader(h))
		}()
		n := len(p.Validators)
		pos := "mid"
		switch {
		case h.Number%p.Epoch == 0:
			pos = "epoch"
		case h.Number%p.Epoch == uint64(n/2):
			pos = "rotation"
		}
		cl := "valid-accepted"
		if !v.Accept {
			cl = "rejected/" + v.Clause
		}
		if v.RecencyAmbiguous {
			rec.Count("recency-ambiguous-not-judged", 1)
			return err == nil, true
		}
		rec.Judge(cl, kind, n, pos, err == nil)
		if (err == nil) != v.Accept {
			el := ""
			if err != nil {
				el = err.Error()
			}
			rec.Violate("acceptance-differs-from-parlia-rule", map[string]string{"corruption": kind, "reference": cl, "got": fmt.Sprint(err == nil)},
				fmt.Sprintf("block %d (epoch %d, %d validators, position %s): implementation accepted=%v (%s), reference %s", h.Number, p.Epoch, n, pos, err == nil, el, cl),
				map[string]any{"header": toBscHeader(h), "validators": p.Validators, "chain_id": g.chainID})
			return err == nil, false
		}
		return err == nil, true
	}
	for b := 0; b < blocks; b++ {
		if rec.Unlisted() > 3 {
			return
		}
		n := uint64(len(p.Validators))
		num := p.Latest.Number + 1
		// eligible signers under the strict reading
		var elig []common.Address
		for _, v := range p.Validators {
			recent := false
			for k := uint64(1); k <= n/2; k++ {
				if s, ok := p.History[num-k]; ok && s == v {
					recent = true
				}
			}
			for seen, s := range p.Recents {
				if s == v && seen+n/2+1 > num {
					recent = true
				}
			}
			if !recent {
				elig = append(elig, v)
			}
		}
		if len(elig) == 0 {
			rec.Count("chain-stalled-no-eligible-signer", 1)
			return
		}
		signer := elig[rng.Intn(len(elig))]
		inturn := p.Validators[num%n]
		for _, e := range elig {
			if e == inturn && rng.Intn(10) < 6 {
				signer = e
			}
		}
		next := g.randSet(g.setSize())
		valid := g.child(p, signer, next)
		// all single-field corruptions of the valid header
		for _, co := range c17Corruptions {
			h := valid
			h.Extra = append([]byte{}, valid.Extra...)
			if !co.f(&h, p, g) {
				continue
			}
			if _, ok := judge(co.name, &h); !ok {
				return
			}
		}
		acc, ok := judge("valid", &valid)
		if !ok || !acc {
			return
		}
		// apply for real
		if err := ck.UpdateClient(ctx, name, toBscHeader(&valid)); err != nil {
			rec.Violate("valid-header-rejected-on-apply", nil, err.Error(), nil)
			return
		}
		oldN := len(p.Validators)
		p.Apply(&valid, signer)
		ncsI, _ := ck.GetClientState(ctx, name)
		ncs := ncsI.(*bsctypes.ClientState)
		cons, okc := ck.GetClientConsensusState(ctx, name, clienttypes.NewHeight(0, valid.Number))
		bc, _ := cons.(*bsctypes.ConsensusState)
		hh := ncs.Header
		if hh.Hash() != valid.Hash() || !okc || bc == nil || bc.Timestamp != valid.Time || !bytes.Equal(bc.Root, valid.Root[:]) || bc.Number.RevisionHeight != valid.Number {
			rec.Violate("accepted-header-stored-wrongly", nil, fmt.Sprintf("block %d", valid.Number), nil)
			return
		}
		got := map[common.Address]bool{}
		for _, v := range ncs.Validators {
			got[common.BytesToAddress(v)] = true
		}
		same := len(got) == len(p.Validators)
		for _, v := range p.Validators {
			if !got[v] {
				same = false
			}
		}
		if valid.Number%p.Epoch == uint64(oldN/2) {
			rec.Judge("rotation", oldN, len(p.Validators))
			rec.Count("rotations-checked", 1)
		}
		if !same {
			rec.Violate("validator-set-differs-from-reference", map[string]string{"old_size": fmt.Sprint(oldN)},
				fmt.Sprintf("after block %d (epoch %d): client has %d validators, reference %d", valid.Number, p.Epoch, len(ncs.Validators), len(p.Validators)), nil)
			return
		}
		if len(rec.Samples()) < 3 && b == 20 {
			rec.Sample(map[string]any{"chain_id": g.chainID, "epoch": g.epoch, "block": valid.Number, "validators": len(p.Validators), "signer": signer.Hex(), "in_turn": valid.Difficulty == 2, "corruptions_offered": len(c17Corruptions)})
		}
	}
}
