package world

import (
	"fmt"
	"sort"
	"strings"

	abci "github.com/cometbft/cometbft/abci/types"
	sdk "github.com/cosmos/cosmos-sdk/types"
	authtypes "github.com/cosmos/cosmos-sdk/x/auth/types"
	mttypes "mods.irisnet.org/modules/mt/types"
	nfttypes "mods.irisnet.org/modules/nft/types"

	mttransfer "github.com/bianjieai/tibc-go/modules/tibc/apps/mt_transfer/types"
	nfttransfer "github.com/bianjieai/tibc-go/modules/tibc/apps/nft_transfer/types"

	"verif/vnet"
)

// NftEscrow / MtEscrow are the transfer modules' escrow accounts.
var (
	NftEscrow = authtypes.NewModuleAddress(nfttransfer.ModuleName)
	MtEscrow  = authtypes.NewModuleAddress(mttransfer.ModuleName)
)

// IssueNftClass issues a native NFT class owned by acc.
func (w *World) IssueNftClass(c *vnet.Chain, acc *vnet.Account, class string) *vnet.Result {
	return w.Do(&Action{Kind: "user-nft-issue", On: c, Signer: acc, Note: class,
		Msgs: []sdk.Msg{nfttypes.NewMsgIssueDenom(class, class, "", acc.Addr.String(), "", false, false, "", "", "", "")}})
}

// MintNft mints id in class to recipient.
func (w *World) MintNft(c *vnet.Chain, acc *vnet.Account, class, id string, to sdk.AccAddress) *vnet.Result {
	return w.Do(&Action{Kind: "user-nft-mint", On: c, Signer: acc, Note: class + "/" + id,
		Msgs: []sdk.Msg{nfttypes.NewMsgMintNFT(id, class, "", "uri-"+id, "", "", acc.Addr.String(), to.String())}})
}

// TransferNftLocal is a plain same-chain transfer.
func (w *World) TransferNftLocal(c *vnet.Chain, acc *vnet.Account, class, id string, to sdk.AccAddress) *vnet.Result {
	return w.Do(&Action{Kind: "user-nft-transfer", On: c, Signer: acc, Note: class + "/" + id,
		Msgs: []sdk.Msg{nfttypes.NewMsgTransferNFT(id, class, "[do-not-modify]", "[do-not-modify]", "[do-not-modify]", "[do-not-modify]", acc.Addr.String(), to.String())}})
}

// BurnNft burns an NFT.
func (w *World) BurnNft(c *vnet.Chain, acc *vnet.Account, class, id string) *vnet.Result {
	return w.Do(&Action{Kind: "user-nft-burn", On: c, Signer: acc, Note: class + "/" + id,
		Msgs: []sdk.Msg{nfttypes.NewMsgBurnNFT(acc.Addr.String(), id, class)}})
}

// SendNft sends an NFT cross-chain.
func (w *World) SendNft(c *vnet.Chain, acc *vnet.Account, class, id, receiver, dest, relay string) *Action {
	a := &Action{Kind: "send-nft", On: c, Signer: acc, Note: class + "/" + id,
		Msgs: []sdk.Msg{&nfttransfer.MsgNftTransfer{Class: class, Id: id, Sender: acc.Addr.String(), Receiver: receiver, DestChain: dest, RealayChain: relay}}}
	w.Do(a)
	return a
}

func evAttr(evs []abci.Event, typ, key string) string {
	for _, ev := range evs {
		if ev.Type == typ {
			if v := attr(ev, key); v != "" {
				return v
			}
		}
	}
	return ""
}

// IssueMtDenom issues an MT class; returns its generated id.
func (w *World) IssueMtDenom(c *vnet.Chain, acc *vnet.Account, name string) (string, *vnet.Result) {
	r := w.Do(&Action{Kind: "user-mt-issue", On: c, Signer: acc, Note: name,
		Msgs: []sdk.Msg{mttypes.NewMsgIssueDenom(name, "", acc.Addr.String())}})
	return evAttr(r.Events, mttypes.EventTypeIssueDenom, mttypes.AttributeKeyDenomID), r
}

// MintMt issues (id=="") or mints more of an MT; returns the MT id.
func (w *World) MintMt(c *vnet.Chain, acc *vnet.Account, denom, id string, amount uint64, to sdk.AccAddress) (string, *vnet.Result) {
	r := w.Do(&Action{Kind: "user-mt-mint", On: c, Signer: acc, Note: fmt.Sprintf("%s/%s+%d", denom, id, amount),
		Msgs: []sdk.Msg{mttypes.NewMsgMintMT(id, denom, amount, "", acc.Addr.String(), to.String())}})
	return evAttr(r.Events, mttypes.EventTypeMintMT, mttypes.AttributeKeyMTID), r
}

// TransferMtLocal is a plain same-chain transfer.
func (w *World) TransferMtLocal(c *vnet.Chain, acc *vnet.Account, denom, id string, amount uint64, to sdk.AccAddress) *vnet.Result {
	return w.Do(&Action{Kind: "user-mt-transfer", On: c, Signer: acc,
		Msgs: []sdk.Msg{mttypes.NewMsgTransferMT(id, denom, acc.Addr.String(), to.String(), amount)}})
}

// BurnMt burns units.
func (w *World) BurnMt(c *vnet.Chain, acc *vnet.Account, denom, id string, amount uint64) *vnet.Result {
	return w.Do(&Action{Kind: "user-mt-burn", On: c, Signer: acc,
		Msgs: []sdk.Msg{mttypes.NewMsgBurnMT(acc.Addr.String(), id, denom, amount)}})
}

// SendMt sends MT units cross-chain.
func (w *World) SendMt(c *vnet.Chain, acc *vnet.Account, class, id string, amount uint64, receiver, dest, relay string) *Action {
	a := &Action{Kind: "send-mt", On: c, Signer: acc, Note: fmt.Sprintf("%s/%s x%d", class, id, amount),
		Msgs: []sdk.Msg{&mttransfer.MsgMtTransfer{Class: class, Id: id, Sender: acc.Addr.String(), Receiver: receiver, DestChain: dest, RealayChain: relay, Amount: amount}}}
	w.Do(a)
	return a
}

// ---------- token state snapshots ---------------------------------------

// NftHolding is one NFT as seen on a chain.
type NftHolding struct {
	Chain, Class, ID string
	Owner            string
}

// NftSnapshot lists every NFT of every class on a chain.
func NftSnapshot(c *vnet.Chain) []NftHolding {
	ctx := c.Ctx()
	var out []NftHolding
	cols, err := c.App.NftKeeper.GetCollections(ctx)
	if err != nil {
		return nil
	}
	for _, col := range cols {
		for _, n := range col.NFTs {
			out = append(out, NftHolding{Chain: c.Name, Class: col.Denom.Id, ID: n.GetID(), Owner: n.GetOwner().String()})
		}
	}
	sort.Slice(out, func(i, j int) bool {
		return out[i].Class+"\x00"+out[i].ID < out[j].Class+"\x00"+out[j].ID
	})
	return out
}

// NftOwner returns the owner of class/id on c ("" if it does not exist).
func NftOwner(c *vnet.Chain, class, id string) string {
	n, err := c.App.NftKeeper.GetNFT(c.Ctx(), class, id)
	if err != nil {
		return ""
	}
	return n.GetOwner().String()
}

// MtBal is one balance entry.
type MtBal struct {
	Chain, Class, ID, Owner string
	Amount                  uint64
}

// MtSnapshot returns all balances and supplies of a chain.
func MtSnapshot(c *vnet.Chain) (bals []MtBal, supply map[[2]string]uint64) {
	ctx := c.Ctx()
	supply = map[[2]string]uint64{}
	gs := c.App.MtKeeper.ExportGenesisState(ctx)
	for _, col := range gs.Collections {
		for _, m := range col.Mts {
			supply[[2]string{col.Denom.Id, m.Id}] = c.App.MtKeeper.GetMTSupply(ctx, col.Denom.Id, m.Id)
		}
	}
	for _, o := range gs.Owners {
		for _, d := range o.Denoms {
			for _, b := range d.Balances {
				bals = append(bals, MtBal{Chain: c.Name, Class: d.DenomId, ID: b.MtId, Owner: o.Address, Amount: b.Amount})
			}
		}
	}
	sort.Slice(bals, func(i, j int) bool {
		a, b := bals[i], bals[j]
		return a.Class+"\x00"+a.ID+"\x00"+a.Owner < b.Class+"\x00"+b.ID+"\x00"+b.Owner
	})
	return
}

// MtBalance of one account.
func MtBalance(c *vnet.Chain, class, id string, owner sdk.AccAddress) uint64 {
	return c.App.MtKeeper.GetBalance(c.Ctx(), class, id, owner)
}

// NftVoucherClass computes the voucher class id for a full class path.
func NftVoucherClass(path string) string { return nfttransfer.ParseClassTrace(path).IBCClass() }

// MtVoucherClass computes the MT voucher class id for a full class path.
func MtVoucherClass(path string) string { return mttransfer.ParseClassTrace(path).IBCClass() }

// IsVoucherClass reports whether a class id has the voucher prefix.
func IsVoucherClass(class string) bool { return strings.HasPrefix(class, "tibc-") }
