package world

import (
	"fmt"
	"math/rand"
	"strings"

	sdk "github.com/cosmos/cosmos-sdk/types"

	mttransfer "github.com/bianjieai/tibc-go/modules/tibc/apps/mt_transfer/types"
	nfttransfer "github.com/bianjieai/tibc-go/modules/tibc/apps/nft_transfer/types"
	clienttypes "github.com/bianjieai/tibc-go/modules/tibc/core/02-client/types"
	packettypes "github.com/bianjieai/tibc-go/modules/tibc/core/04-packet/types"

	"verif/vnet"
)

// Sweep delivers the transaction produced by build() with increasing gas
// limits until it succeeds: every earlier attempt aborts at a later store
// access. Returns the number of out-of-gas aborts and the final action.
func (w *World) Sweep(label string, build func() *Action, start, step uint64, maxTries int) (int, *Action) {
	aborts := 0
	g := start
	for i := 0; i < maxTries && !w.Stop; i++ {
		a := build()
		if a == nil {
			return aborts, nil
		}
		a.Gas = g
		a.Mut = "gas-limit"
		a.Note = label
		w.Do(a)
		if a.Res.OK() {
			return aborts, a
		}
		if !strings.Contains(a.Res.Log, "out of gas") {
			return aborts, a
		}
		aborts++
		g += step
	}
	a := build()
	if a != nil {
		w.Do(a)
	}
	return aborts, a
}

// FaultScenario drives every TIBC message type through gas sweeps, multi-message
// transactions with a late failure, and naturally late-failing messages.
type FaultScenario struct {
	W      *World
	Rng    *rand.Rand
	Step   uint64
	Aborts map[string]int
	n      int
}

func (f *FaultScenario) sweep(label string, build func() *Action) *Action {
	ab, a := f.W.Sweep(label, build, 40_000+uint64(f.Rng.Intn(int(f.Step))), f.Step, 4000)
	f.Aborts[label] += ab
	return a
}

// relaySweep refreshes the client then sweeps the honest relay message.
func (f *FaultScenario) relaySweep(label, kind string, rec *PacketRec, on, from *vnet.Chain) *Action {
	if !f.W.Fresh(on, from) {
		return nil
	}
	return f.sweep(label, func() *Action {
		var a *Action
		if kind == "recv" {
			a = f.W.HonestRecv(rec, on, from, on.Relayer)
		} else {
			a = f.W.HonestAck(rec, on, from, on.Relayer)
		}
		return a
	})
}

func (f *FaultScenario) lastPacket() *PacketRec {
	if len(f.W.Order) == 0 {
		return nil
	}
	return f.W.Packets[f.W.Order[len(f.W.Order)-1]]
}

// Run executes the scenario on a full-mesh 3-chain network with permissive rules.
func (f *FaultScenario) Run() {
	w := f.W
	cs := w.Net.Chains
	A, B, C := cs[0], cs[1], cs[2]
	ua, ub := A.Accounts[1], B.Accounts[1]
	if f.Aborts == nil {
		f.Aborts = map[string]int{}
	}

	// ---- NFT: away, success ack, back, unlock
	for round := 0; round < 2 && !w.Stop; round++ {
		relay := ""
		if round == 1 {
			relay = C.Name
		}
		class := fmt.Sprintf("faultcls%d", round)
		w.IssueNftClass(A, ua, class)
		w.MintNft(A, ua, class, "tokone", ua.Addr)
		f.sweep("send-nft-lock", func() *Action {
			return &Action{Kind: "send-nft", On: A, Signer: ua, Msgs: []sdk.Msg{&nfttransfer.MsgNftTransfer{Class: class, Id: "tokone", Sender: ua.Addr.String(), Receiver: ub.Addr.String(), DestChain: B.Name, RealayChain: relay}}}
		})
		rec := f.lastPacket()
		if rec == nil {
			return
		}
		if relay != "" {
			f.relaySweep("recv-relay-hop", "recv", rec, C, A)
			f.relaySweep("recv-nft-mint-voucher-via-relay", "recv", rec, B, C)
			f.relaySweep("ack-relay-hop", "ack", rec, C, B)
			f.relaySweep("ack-nft-success-via-relay", "ack", rec, A, C)
		} else {
			f.relaySweep("recv-nft-mint-voucher", "recv", rec, B, A)
			f.relaySweep("ack-nft-success", "ack", rec, A, B)
		}
		// send the voucher back
		path := "nft/" + A.Name + "/" + B.Name + "/" + class
		vc := NftVoucherClass(path)
		if NftOwner(B, vc, "tokone") != ub.Addr.String() {
			continue
		}
		f.sweep("send-nft-burn", func() *Action {
			return &Action{Kind: "send-nft", On: B, Signer: ub, Msgs: []sdk.Msg{&nfttransfer.MsgNftTransfer{Class: vc, Id: "tokone", Sender: ub.Addr.String(), Receiver: ua.Addr.String(), DestChain: A.Name, RealayChain: relay}}}
		})
		rec = f.lastPacket()
		if relay != "" {
			f.relaySweep("recv-relay-hop", "recv", rec, C, B)
			f.relaySweep("recv-nft-unlock-via-relay", "recv", rec, A, C)
			f.relaySweep("ack-relay-hop", "ack", rec, C, A)
			f.relaySweep("ack-nft-success-via-relay", "ack", rec, B, C)
		} else {
			f.relaySweep("recv-nft-unlock", "recv", rec, A, B)
			f.relaySweep("ack-nft-success", "ack", rec, B, A)
		}
	}
	// ---- NFT: error ack and refund (bad receiver), direct
	w.IssueNftClass(A, ua, "refundcls")
	w.MintNft(A, ua, "refundcls", "tokr", ua.Addr)
	f.sweep("send-nft-lock", func() *Action {
		return &Action{Kind: "send-nft", On: A, Signer: ua, Msgs: []sdk.Msg{&nfttransfer.MsgNftTransfer{Class: "refundcls", Id: "tokr", Sender: ua.Addr.String(), Receiver: "bad-receiver", DestChain: B.Name}}}
	})
	rec := f.lastPacket()
	f.relaySweep("recv-nft-error-ack", "recv", rec, B, A)
	f.relaySweep("ack-nft-refund-unlock", "ack", rec, A, B)

	// ---- MT: away (lock), success, back (burn), unlock; then error ack + refund
	den, _ := w.IssueMtDenom(A, ua, "faultmt")
	mid, _ := w.MintMt(A, ua, den, "", 1000, ua.Addr)
	if den != "" && mid != "" {
		f.sweep("send-mt-lock", func() *Action {
			return &Action{Kind: "send-mt", On: A, Signer: ua, Msgs: []sdk.Msg{&mttransfer.MsgMtTransfer{Class: den, Id: mid, Sender: ua.Addr.String(), Receiver: ub.Addr.String(), DestChain: B.Name, Amount: 400}}}
		})
		rec = f.lastPacket()
		f.relaySweep("recv-mt-mint-voucher", "recv", rec, B, A)
		f.relaySweep("ack-mt-success", "ack", rec, A, B)
		vc := MtVoucherClass("mt/" + A.Name + "/" + B.Name + "/" + den)
		f.sweep("send-mt-burn", func() *Action {
			return &Action{Kind: "send-mt", On: B, Signer: ub, Msgs: []sdk.Msg{&mttransfer.MsgMtTransfer{Class: vc, Id: mid, Sender: ub.Addr.String(), Receiver: ua.Addr.String(), DestChain: A.Name, Amount: 150}}}
		})
		rec = f.lastPacket()
		f.relaySweep("recv-mt-unlock", "recv", rec, A, B)
		f.relaySweep("ack-mt-success", "ack", rec, B, A)
		f.sweep("send-mt-lock", func() *Action {
			return &Action{Kind: "send-mt", On: A, Signer: ua, Msgs: []sdk.Msg{&mttransfer.MsgMtTransfer{Class: den, Id: mid, Sender: ua.Addr.String(), Receiver: "bad-receiver", DestChain: B.Name, Amount: 77}}}
		})
		rec = f.lastPacket()
		f.relaySweep("recv-mt-error-ack", "recv", rec, B, A)
		f.relaySweep("ack-mt-refund-unlock", "ack", rec, A, B)
		// refund of a burnt voucher (re-mint)
		f.sweep("send-mt-burn", func() *Action {
			return &Action{Kind: "send-mt", On: B, Signer: ub, Msgs: []sdk.Msg{&mttransfer.MsgMtTransfer{Class: vc, Id: mid, Sender: ub.Addr.String(), Receiver: "bad-receiver", DestChain: A.Name, Amount: 50}}}
		})
		rec = f.lastPacket()
		f.relaySweep("recv-mt-error-ack", "recv", rec, A, B)
		f.relaySweep("ack-mt-refund-remint", "ack", rec, B, A)
	}

	// ---- clean on the source, receive-clean on the destination
	cp := CleanPoint(A, A.Name, B.Name)
	ma := MaxAck(A, A.Name, B.Name)
	if ma > cp {
		n := ma
		for q := cp + 1; q <= ma; q++ {
			if HasCommitment(A, PKey{A.Name, B.Name, q}) {
				n = q - 1
				break
			}
		}
		if n > cp {
			cpk := packettypes.NewCleanPacket(n, A.Name, B.Name, "")
			f.sweep("clean-source", func() *Action {
				c := cpk
				return &Action{Kind: "clean", On: A, Signer: ua, Clean: &c, Msgs: []sdk.Msg{packettypes.NewMsgCleanPacket(cpk, ua.Addr)}}
			})
			if f.W.Fresh(B, A) {
				f.sweep("recvclean-destination", func() *Action { return w.HonestRecvClean(cpk, B, A, B.Relayer) })
			}
		}
	}
	// ---- client update
	w.Do(&Action{Kind: "block", On: A, Exec: func(sdk.Context) error { return nil }})
	f.sweep("update-client", func() *Action {
		msg, err := clienttypes.NewMsgUpdateClient(A.Name, vnet.UpdateHeader(B, A, 0), B.Relayer.Addr)
		if err != nil {
			return nil
		}
		return &Action{Kind: "update", On: B, From: A, Msgs: []sdk.Msg{msg}, Signer: B.Relayer}
	})

	// ---- multi-message transactions with a late failure
	for i := 0; i < 4 && !w.Stop; i++ {
		seq := NextSend(A, A.Name, B.Name)
		p := packettypes.NewPacket([]byte(fmt.Sprintf("multi-%d", i)), seq, A.Name, B.Name, "", MockPort)
		w.Do(&Action{Kind: "send-mock", On: A, Packet: &p, Exec: func(ctx sdk.Context) error { return A.App.TIBCKeeper.PacketKeeper.SendPacket(ctx, &p) }})
		rec := f.lastPacket()
		if rec == nil || !w.Fresh(B, A) {
			continue
		}
		good := w.HonestRecv(rec, B, A, B.Relayer)
		bad := cloneAction(good, "multi-msg-late-failure")
		bad.Packet.Data = append(bad.Packet.Data, 'x')
		rebuild(bad)
		var msgs []sdk.Msg
		if i%2 == 0 {
			msgs = []sdk.Msg{good.Msgs[0], bad.Msgs[0]}
		} else {
			msgs = []sdk.Msg{good.Msgs[0], good.Msgs[0]} // second copy fails: already received
		}
		w.Do(&Action{Kind: "multi", On: B, Signer: B.Relayer, Msgs: msgs, Mut: "multi-msg-late-failure"})
		// token send followed by a failing send in one tx
		cl := fmt.Sprintf("multicls%d", i)
		w.IssueNftClass(A, ua, cl)
		w.MintNft(A, ua, cl, "tokm", ua.Addr)
		w.Do(&Action{Kind: "multi", On: A, Signer: ua, Mut: "multi-msg-late-failure", Msgs: []sdk.Msg{
			&nfttransfer.MsgNftTransfer{Class: cl, Id: "tokm", Sender: ua.Addr.String(), Receiver: ub.Addr.String(), DestChain: B.Name},
			&nfttransfer.MsgNftTransfer{Class: cl, Id: "tokm", Sender: ua.Addr.String(), Receiver: ub.Addr.String(), DestChain: B.Name},
		}})
		// now deliver honestly so the history goes on
		w.Do(good)
	}

	// ---- crafted packets on real ports: late failures and error-ack producers
	type crafted struct {
		label, port string
		data        []byte
	}
	mk := func(class, id, recv string, away bool) []byte {
		return nfttransfer.NewNonFungibleTokenPacketData(class, id, "uri", ua.Addr.String(), recv, away, "").GetBytes()
	}
	mkmt := func(class, id, recv string, away bool, amt uint64) []byte {
		return mttransfer.NewMultiTokenPacketData(class, id, ua.Addr.String(), recv, away, "", amt, []byte("d")).GetBytes()
	}
	cases := []crafted{
		{"garbage-data-on-nft-port", "NFT", []byte{0xff, 0xfe, 0x01, 0x02}},
		{"garbage-data-on-mt-port", "MT", []byte{0xff, 0xfe, 0x01, 0x02}},
		{"nft-back-without-prefix", "NFT", mk("plainclass", "x1", ub.Addr.String(), false)},
		{"nft-back-escrow-empty", "NFT", mk("nft/"+B.Name+"/"+A.Name+"/ghost", "x1", ub.Addr.String(), false)},
		{"nft-away-duplicate-id", "NFT", mk("dupclass", "dup1", ub.Addr.String(), true)},
		{"nft-away-duplicate-id", "NFT", mk("dupclass", "dup1", ub.Addr.String(), true)},
		{"nft-away-bad-receiver", "NFT", mk("dupclass", "dup2", "nobody", true)},
		{"nft-empty-id", "NFT", mk("dupclass", "", ub.Addr.String(), true)},
		{"mt-back-without-prefix", "MT", mkmt("plainclass", "x1", ub.Addr.String(), false, 5)},
		{"mt-back-escrow-empty", "MT", mkmt("mt/"+B.Name+"/"+A.Name+"/ghost", "x1", ub.Addr.String(), false, 5)},
		{"mt-away-near-max", "MT", mkmt("ovfclass", "o1", ub.Addr.String(), true, ^uint64(0)-5)},
		{"mt-away-overflow", "MT", mkmt("ovfclass", "o1", ub.Addr.String(), true, 10)},
		{"mt-amount-zero", "MT", mkmt("ovfclass", "o2", ub.Addr.String(), true, 0)},
		{"mt-away-bad-receiver", "MT", mkmt("ovfclass", "o3", "nobody", true, 3)},
		{"unknown-port", "no-such-port", []byte("x")},
	}
	for _, c := range cases {
		if w.Stop {
			return
		}
		seq := NextSend(A, A.Name, B.Name)
		p := packettypes.NewPacket(c.data, seq, A.Name, B.Name, "", c.port)
		r := w.Do(&Action{Kind: "send-mock", On: A, Packet: &p, Note: c.label, Exec: func(ctx sdk.Context) error { return A.App.TIBCKeeper.PacketKeeper.SendPacket(ctx, &p) }})
		if !r.OK() {
			continue
		}
		rec := f.lastPacket()
		if !w.Fresh(B, A) {
			continue
		}
		a := w.HonestRecv(rec, B, A, B.Relayer)
		a.Note = c.label
		a.Mut = "crafted:" + c.label
		w.Do(a)
	}
}
