package world

import (
	"fmt"
	"math/rand"
	"time"

	sdk "github.com/cosmos/cosmos-sdk/types"

	clienttypes "github.com/bianjieai/tibc-go/modules/tibc/core/02-client/types"
	packettypes "github.com/bianjieai/tibc-go/modules/tibc/core/04-packet/types"
	host "github.com/bianjieai/tibc-go/modules/tibc/core/24-host"
	routingtypes "github.com/bianjieai/tibc-go/modules/tibc/core/26-routing/types"

	"verif/vnet"
)

// ChainNames is the pool of names used by generated networks: they use the
// whole identifier alphabet (. _ + - # [ ] < >), and are >= 9 characters.
var ChainNames = []string{"alphachain", "bravo.chain", "charlie-net", "delta_ch#1"}

const MockPort = "tibcmock"

// PktCfg steers one packet-layer history.
type PktCfg struct {
	NChains   int
	Steps     int
	PSend     float64 // probability of a user/module send
	PRelay    float64 // honest relay of an enabled action
	PAdv      float64 // adversarial batch
	PClean    float64 // clean traffic
	PFailSend float64 // deliberately failing sends
	Tokens    bool    // also send NFT / MT transfers (otherwise mock packets only)
	FullMesh  bool    // direct clients between all pairs (else a line a-b-c(-d) plus maybe a-c)
	Rules     [][]string
	AdvBatch  int           // variants per adversarial batch (0 = all)
	Delay     time.Duration // confirmation delay of the Tendermint clients (0 = none)
	PRules    float64       // probability per step of a governance change of one chain's routing rules
	// NoFieldEdits leaves out the port / relay-chain alterations (C13's subject).
	NoFieldEdits bool
}

// DefaultPktCfg is the balanced workload.
func DefaultPktCfg() PktCfg {
	return PktCfg{NChains: 3, Steps: 120, PSend: 0.28, PRelay: 0.38, PAdv: 0.2, PClean: 0.1, PFailSend: 0.04, Tokens: true, AdvBatch: 6, PRules: 0.015}
}

// PktSim is the generator state of one history.
type PktSim struct {
	W       *World
	Cfg     PktCfg
	Rng     *rand.Rand
	nft     map[string][]nftTok // chain -> tokens the sim minted / received (best effort)
	mt      map[string][]mtTok
	nftN    int
	sent    []*Action // every delivered recv/ack/recvclean message (for replays)
	cleans  []packettypes.CleanPacket
	OnBatch func(base *Action, variants []*Action)
}

type nftTok struct {
	class, id string
	owner     *vnet.Account
}
type mtTok struct {
	class, id string
	owner     *vnet.Account
}

// NewPktNetwork builds the network for a packet history: chains, clients, rules.
func NewPktNetwork(seed int64, rng *rand.Rand, cfg PktCfg) *vnet.Network {
	names := ChainNames[:cfg.NChains]
	n := vnet.New(seed, rng, names, 2, 4)
	cs := n.Chains
	if cfg.Delay > 0 {
		old := vnet.DefaultClientCfg
		c := old
		c.TimeDelay = uint64(cfg.Delay)
		n.ClientCfg = &c
	}
	if cfg.FullMesh {
		for i := range cs {
			for j := i + 1; j < len(cs); j++ {
				n.Connect(cs[i], cs[j])
			}
		}
	} else {
		for i := 0; i+1 < len(cs); i++ {
			n.Connect(cs[i], cs[i+1])
		}
		if len(cs) >= 3 && rng.Intn(2) == 0 {
			n.Connect(cs[0], cs[2])
		}
		if len(cs) >= 4 && rng.Intn(2) == 0 {
			n.Connect(cs[1], cs[3])
		}
	}
	for i, c := range cs {
		var rules []string
		if cfg.Rules != nil {
			rules = cfg.Rules[i%len(cfg.Rules)]
		} else {
			switch rng.Intn(4) {
			case 0:
				rules = []string{"*,*,*"}
			case 1:
				rules = []string{"*,*," + MockPort, cs[0].Name + ",*,NFT"}
			case 2:
				rules = []string{cs[0].Name + ",*,*", "*," + cs[0].Name + ",*"}
			case 3:
				rules = nil // nothing authorised
			}
		}
		if rules != nil {
			n.SetRules(c, rules)
		}
	}
	return n
}

// NewPktSim prepares a sim on a world.
func NewPktSim(w *World, cfg PktCfg, rng *rand.Rand) *PktSim {
	return &PktSim{W: w, Cfg: cfg, Rng: rng, nft: map[string][]nftTok{}, mt: map[string][]mtTok{}}
}

func (s *PktSim) chains() []*vnet.Chain { return s.W.Net.Chains }

func (s *PktSim) pick() *vnet.Chain { cs := s.chains(); return cs[s.Rng.Intn(len(cs))] }

// route picks (src, dst, relay) such that the needed clients exist; relay may be "".
func (s *PktSim) route() (src, dst *vnet.Chain, relay string) {
	cs := s.chains()
	for try := 0; try < 20; try++ {
		src, dst = s.pick(), s.pick()
		if src == dst {
			continue
		}
		direct := HasClient(src, dst.Name) && HasClient(dst, src.Name)
		var relays []string
		for _, r := range cs {
			if r != src && r != dst && HasClient(src, r.Name) && HasClient(r, src.Name) && HasClient(r, dst.Name) && HasClient(dst, r.Name) {
				relays = append(relays, r.Name)
			}
		}
		if len(relays) > 0 && (!direct || s.Rng.Intn(2) == 0) {
			return src, dst, relays[s.Rng.Intn(len(relays))]
		}
		if direct {
			return src, dst, ""
		}
	}
	return cs[0], cs[1], ""
}

func (s *PktSim) user(c *vnet.Chain) *vnet.Account {
	return c.Accounts[1+s.Rng.Intn(len(c.Accounts)-1)]
}

func (s *PktSim) randData() []byte {
	n := 1 + s.Rng.Intn(40)
	b := make([]byte, n)
	s.Rng.Read(b)
	return b
}

// Send performs one successful-looking send.
func (s *PktSim) Send() {
	src, dst, relay := s.route()
	kind := 0
	if s.Cfg.Tokens {
		kind = s.Rng.Intn(4) // 0,1 mock  2 nft  3 mt
	}
	switch kind {
	case 2:
		u := s.user(src)
		class := fmt.Sprintf("cls%c%d", 'a'+rune(s.Rng.Intn(3)), s.Rng.Intn(2))
		if !src.App.NftKeeper.HasDenom(src.Ctx(), class) {
			s.W.IssueNftClass(src, u, class)
		}
		s.nftN++
		id := fmt.Sprintf("tok%d", s.nftN)
		// class owner mints (mintRestricted false: anyone may mint)
		if r := s.W.MintNft(src, u, class, id, u.Addr); !r.OK() {
			return
		}
		recv := s.user(dst).Addr.String()
		if s.Rng.Intn(8) == 0 {
			recv = "not-an-address" // receiver side fails -> error ack
		}
		s.W.SendNft(src, u, class, id, recv, dst.Name, relay)
	case 3:
		u := s.user(src)
		den, r := s.W.IssueMtDenom(src, u, "mtden")
		if !r.OK() || den == "" {
			return
		}
		amt := uint64(1 + s.Rng.Intn(1000))
		id, r2 := s.W.MintMt(src, u, den, "", amt, u.Addr)
		if !r2.OK() || id == "" {
			return
		}
		recv := s.user(dst).Addr.String()
		if s.Rng.Intn(8) == 0 {
			recv = "not-an-address"
		}
		s.W.SendMt(src, u, den, id, 1+uint64(s.Rng.Intn(int(amt))), recv, dst.Name, relay)
	default:
		seq := NextSend(src, src.Name, dst.Name)
		p := packettypes.NewPacket(s.randData(), seq, src.Name, dst.Name, relay, MockPort)
		s.W.Do(&Action{Kind: "send-mock", On: src, Packet: &p, Exec: func(ctx sdk.Context) error {
			return src.App.TIBCKeeper.PacketKeeper.SendPacket(ctx, &p)
		}})
	}
}

// FailSend performs a send that must fail.
func (s *PktSim) FailSend() {
	src, dst, relay := s.route()
	seq := NextSend(src, src.Name, dst.Name)
	var p packettypes.Packet
	mut := ""
	switch s.Rng.Intn(7) {
	case 0:
		p = packettypes.NewPacket(s.randData(), seq, src.Name, "unknownchain", "", MockPort)
		mut = "unknown-dest"
	case 1:
		p = packettypes.NewPacket(s.randData(), seq, src.Name, dst.Name, "unknownrelay", MockPort)
		mut = "unknown-relay"
	case 2:
		p = packettypes.NewPacket(nil, seq, src.Name, dst.Name, relay, MockPort)
		mut = "empty-data"
	case 3:
		p = packettypes.NewPacket(s.randData(), seq+1+uint64(s.Rng.Intn(3)), src.Name, dst.Name, relay, MockPort)
		mut = "seq-ahead"
	case 4:
		if seq == 1 {
			return
		}
		p = packettypes.NewPacket(s.randData(), seq-1, src.Name, dst.Name, relay, MockPort)
		mut = "seq-reuse"
	case 5:
		p = packettypes.NewPacket(s.randData(), seq, dst.Name, src.Name, "", MockPort)
		mut = "foreign-source"
	case 6:
		// token not owned / class missing
		u := s.user(src)
		s.W.SendNft(src, u, "nosuchclass", "nosuchid", s.user(dst).Addr.String(), dst.Name, relay)
		return
	}
	s.W.Do(&Action{Kind: "send-mock", On: src, Packet: &p, Mut: mut, Exec: func(ctx sdk.Context) error {
		return src.App.TIBCKeeper.PacketKeeper.SendPacket(ctx, &p)
	}})
}

// RelayOne relays a random enabled action honestly.
func (s *PktSim) RelayOne() bool {
	en := s.W.EnabledRelays()
	if len(en) == 0 {
		return false
	}
	a := s.W.Relay(en[s.Rng.Intn(len(en))])
	if a != nil {
		s.sent = append(s.sent, a)
	}
	return true
}

// CleanStep issues clean traffic: a source clean with N from the interesting
// set, or an honest receive-clean of an existing clean point.
func (s *PktSim) CleanStep() {
	pairs := s.W.Pairs()
	if len(pairs) == 0 {
		return
	}
	pr := pairs[s.Rng.Intn(len(pairs))]
	src := s.W.Chain(pr[0])
	if src == nil {
		return
	}
	if s.Rng.Intn(2) == 0 {
		if s.Rng.Intn(5) == 0 {
			s.foreignClean(pr)
			return
		}
		cp := CleanPoint(src, pr[0], pr[1])
		ma := MaxAck(src, pr[0], pr[1])
		// first unacked = lowest commitment
		fu := uint64(0)
		for q := cp + 1; q <= ma+1; q++ {
			if HasCommitment(src, PKey{pr[0], pr[1], q}) {
				fu = q
				break
			}
		}
		cands := []uint64{0, cp, cp + 1, ma, ma + 1, ^uint64(0)}
		if fu > 0 {
			cands = append(cands, fu-1, fu)
		}
		if ma > cp+1 {
			cands = append(cands, cp+1+uint64(s.Rng.Intn(int(ma-cp))))
		}
		n := cands[s.Rng.Intn(len(cands))]
		relay := ""
		// use the relay of some packet of this pair, if any
		for _, k := range s.W.Order {
			if k.Src == pr[0] && k.Dst == pr[1] && s.W.Packets[k].Orig.RelayChain != "" && s.Rng.Intn(2) == 0 {
				relay = s.W.Packets[k].Orig.RelayChain
				break
			}
		}
		cpk := packettypes.NewCleanPacket(n, pr[0], pr[1], relay)
		u := s.user(src)
		a := &Action{Kind: "clean", On: src, Signer: u, Clean: &cpk, Msgs: []sdk.Msg{packettypes.NewMsgCleanPacket(cpk, u.Addr)}}
		s.W.Do(a)
		if a.Res.OK() {
			s.cleans = append(s.cleans, cpk)
		}
		return
	}
	// propagate an existing clean point to relay / destination
	if len(s.cleans) == 0 {
		return
	}
	cpk := s.cleans[s.Rng.Intn(len(s.cleans))]
	srcC := s.W.Chain(cpk.SourceChain)
	cur := CleanPoint(srcC, cpk.SourceChain, cpk.DestinationChain)
	if s.Rng.Intn(3) != 0 {
		cpk.Sequence = cur // honest: the source's current clean point
	}
	hops := []string{cpk.SourceChain, cpk.DestinationChain}
	if cpk.RelayChain != "" {
		hops = []string{cpk.SourceChain, cpk.RelayChain, cpk.DestinationChain}
	}
	i := 1 + s.Rng.Intn(len(hops)-1)
	on, from := s.W.Chain(hops[i]), s.W.Chain(hops[i-1])
	if on == nil || from == nil || !HasClient(on, from.Name) {
		return
	}
	if !s.W.Fresh(on, from) {
		return
	}
	a := s.W.HonestRecvClean(cpk, on, from, on.Relayer)
	a.Honest = cpk.Sequence == cur
	s.W.Do(a)
	s.sent = append(s.sent, a)
	// right after an accepted receive-clean: replay (old proof) the receives this chain accepted for that pair,
	// the one at the clean point first
	if a.Res.OK() {
		var olds []*Action
		for _, o := range s.sent {
			if o.Kind == "recv" && o.On == on && o.Res != nil && o.Res.OK() && o.Packet != nil &&
				o.Packet.SourceChain == cpk.SourceChain && o.Packet.DestinationChain == cpk.DestinationChain && o.Packet.Sequence <= cpk.Sequence {
				olds = append(olds, o)
			}
		}
		for i := len(olds) - 1; i >= 0 && i >= len(olds)-3 && !s.W.Stop; i-- {
			r := cloneAction(olds[i], "replay-after-clean")
			rebuild(r)
			s.W.Do(r)
		}
		// ... and a few it accepted above the clean point: their receipts must have survived the clean
		var above []*Action
		for _, o := range s.sent {
			if o.Kind == "recv" && o.On == on && o.Res != nil && o.Res.OK() && o.Packet != nil &&
				o.Packet.SourceChain == cpk.SourceChain && o.Packet.DestinationChain == cpk.DestinationChain && o.Packet.Sequence > cpk.Sequence {
				above = append(above, o)
			}
		}
		for n := 0; n < 3 && len(above) > 0 && !s.W.Stop; n++ {
			r := cloneAction(above[s.Rng.Intn(len(above))], "replay-above-clean-point")
			rebuild(r)
			s.W.Do(r)
		}
	}
}

// foreignClean submits a user clean request for the pair on a chain that is not its source (destination, relay
// or a bystander), naming the real source, with N taken from what that chain knows about the pair. A chain can
// only ever clean its own outgoing direction on request; anything else needs proof of the source's clean point.
func (s *PktSim) foreignClean(pr [2]string) {
	var others []*vnet.Chain
	for _, c := range s.chains() {
		if c.Name != pr[0] {
			others = append(others, c)
		}
	}
	on := others[s.Rng.Intn(len(others))]
	if s.Rng.Intn(3) != 0 {
		if d := s.W.Chain(pr[1]); d != nil {
			on = d
		}
	}
	cp, ma := CleanPoint(on, pr[0], pr[1]), MaxAck(on, pr[0], pr[1])
	cands := []uint64{cp + 1, ma, ma, ma + 1, 1}
	if ma > cp+1 {
		cands = append(cands, cp+1+uint64(s.Rng.Intn(int(ma-cp))))
	}
	n := cands[s.Rng.Intn(len(cands))]
	if n == 0 {
		n = 1
	}
	relay := ""
	if s.Rng.Intn(3) == 0 {
		relay = pr[0]
	}
	cpk := packettypes.NewCleanPacket(n, pr[0], pr[1], relay)
	u := s.user(on)
	s.W.Do(&Action{Kind: "clean", On: on, Signer: u, Clean: &cpk, Mut: "clean-request-on-foreign-chain",
		Msgs: []sdk.Msg{packettypes.NewMsgCleanPacket(cpk, u.Addr)}})
}

// ---------- adversarial relayer ------------------------------------------

func clonePacket(p packettypes.Packet) packettypes.Packet {
	q := p
	q.Data = append([]byte{}, p.Data...)
	return q
}

func (s *PktSim) otherChain(not ...string) string {
	var c []string
	for _, x := range s.chains() {
		ok := true
		for _, n := range not {
			if x.Name == n {
				ok = false
			}
		}
		if ok {
			c = append(c, x.Name)
		}
	}
	if len(c) == 0 {
		return "ghost-chain"
	}
	return c[s.Rng.Intn(len(c))]
}

// rebuild re-creates the message of a after its fields were edited.
func rebuild(a *Action) {
	switch a.Kind {
	case "recv":
		a.Msgs = []sdk.Msg{packettypes.NewMsgRecvPacket(*a.Packet, a.Proof, a.PH, a.Signer.Addr)}
	case "ack":
		a.Msgs = []sdk.Msg{packettypes.NewMsgAcknowledgement(*a.Packet, a.Ack, a.Proof, a.PH, a.Signer.Addr)}
	case "recvclean":
		a.Msgs = []sdk.Msg{packettypes.NewMsgRecvCleanPacket(*a.Clean, a.Proof, a.PH, a.Signer.Addr)}
	}
}

func cloneAction(a *Action, mut string) *Action {
	b := *a
	b.Mut = mut
	b.Honest = false
	b.Res = nil
	b.Callbacks = nil
	if a.Packet != nil {
		p := clonePacket(*a.Packet)
		b.Packet = &p
	}
	if a.Clean != nil {
		c := *a.Clean
		b.Clean = &c
	}
	b.Proof = append([]byte{}, a.Proof...)
	b.Ack = append([]byte{}, a.Ack...)
	return &b
}

// Variants derives adversarial variants from an honest recv / ack action
// (built after a fresh client update, not yet delivered).
func (s *PktSim) Variants(base *Action) []*Action {
	var out []*Action
	add := func(mut string, f func(a *Action)) {
		a := cloneAction(base, mut)
		f(a)
		rebuild(a)
		out = append(out, a)
	}
	on, from := base.On, base.From
	if base.Packet != nil {
		p := base.Packet
		add("data-bitflip", func(a *Action) { a.Packet.Data[s.Rng.Intn(len(a.Packet.Data))] ^= 1 << uint(s.Rng.Intn(8)) })
		add("data-append", func(a *Action) { a.Packet.Data = append(a.Packet.Data, byte(s.Rng.Intn(256))) })
		if len(p.Data) > 1 {
			add("data-truncate", func(a *Action) { a.Packet.Data = a.Packet.Data[:len(a.Packet.Data)-1] })
		}
		add("seq+1", func(a *Action) { a.Packet.Sequence++ })
		if p.Sequence > 1 {
			add("seq-1", func(a *Action) { a.Packet.Sequence-- })
		}
		add("src-replaced", func(a *Action) { a.Packet.SourceChain = s.otherChain(p.SourceChain, p.DestinationChain) })
		add("dst-replaced", func(a *Action) { a.Packet.DestinationChain = s.otherChain(p.SourceChain, p.DestinationChain) })
		add("src-dst-swapped", func(a *Action) {
			a.Packet.SourceChain, a.Packet.DestinationChain = p.DestinationChain, p.SourceChain
		})
		// another packet's proof
		for _, k := range s.W.Order {
			if k != (PKey{p.SourceChain, p.DestinationChain, p.Sequence}) && HasCommitment(from, k) {
				k := k
				add("proof-of-other-packet", func(a *Action) {
					a.Proof, _ = vnet.ProofAt(from, host.PacketCommitmentKey(k.Src, k.Dst, k.Seq), int64(a.PH.RevisionHeight))
				})
				break
			}
		}
		// field edits judged by C13
		ports := []string{"NFT", "MT", MockPort, "unknownport"}
		if s.Cfg.NoFieldEdits {
			ports = nil
		}
		for _, pt := range ports {
			if pt != p.Port {
				pt := pt
				add("port="+pt, func(a *Action) { a.Packet.Port = pt })
			}
		}
		if s.Cfg.NoFieldEdits {
			// nothing
		} else if p.RelayChain != "" {
			add("relay-removed", func(a *Action) { a.Packet.RelayChain = "" })
			add("relay-replaced", func(a *Action) { a.Packet.RelayChain = s.otherChain(p.SourceChain, p.DestinationChain, p.RelayChain) })
		} else {
			add("relay-added", func(a *Action) { a.Packet.RelayChain = s.otherChain(p.SourceChain, p.DestinationChain) })
		}
	}
	if base.Kind == "ack" {
		add("ack-bitflip", func(a *Action) { a.Ack[s.Rng.Intn(len(a.Ack))] ^= 1 })
		add("ack-swapped", func(a *Action) {
			var ack packettypes.Acknowledgement
			if ack.Unmarshal(a.Ack) == nil {
				if _, isErr := ack.Response.(*packettypes.Acknowledgement_Error); isErr {
					a.Ack = packettypes.NewResultAcknowledgement([]byte{1}).GetBytes()
				} else {
					a.Ack = packettypes.NewErrorAcknowledgement("forged").GetBytes()
				}
			} else {
				a.Ack = packettypes.NewErrorAcknowledgement("forged").GetBytes()
			}
		})
		add("proof-of-commitment-as-ack", func(a *Action) {
			p := a.Packet
			a.Proof, _ = vnet.ProofAt(from, host.PacketCommitmentKey(p.SourceChain, p.DestinationChain, p.Sequence), int64(a.PH.RevisionHeight))
		})
	}
	if base.Kind == "recv" {
		add("proof-of-ack-as-commitment", func(a *Action) {
			p := a.Packet
			a.Proof, _ = vnet.ProofAt(from, host.PacketAcknowledgementKey(p.SourceChain, p.DestinationChain, p.Sequence), int64(a.PH.RevisionHeight))
		})
	}
	if base.Kind == "recvclean" {
		add("clean-seq+1", func(a *Action) { a.Clean.Sequence++ })
		if base.Clean.Sequence > 1 {
			add("clean-seq-1", func(a *Action) { a.Clean.Sequence-- })
		}
		add("clean-src-replaced", func(a *Action) {
			a.Clean.SourceChain = s.otherChain(base.Clean.SourceChain, base.Clean.DestinationChain)
		})
		add("clean-dst-replaced", func(a *Action) {
			a.Clean.DestinationChain = s.otherChain(base.Clean.SourceChain, base.Clean.DestinationChain)
		})
		if base.Clean.RelayChain != "" {
			add("clean-relay-removed", func(a *Action) { a.Clean.RelayChain = "" })
		} else {
			add("clean-relay-added", func(a *Action) {
				a.Clean.RelayChain = s.otherChain(base.Clean.SourceChain, base.Clean.DestinationChain)
			})
		}
	}
	// relay-field edits with the proof rebuilt from the chain the edited message is verified against
	if base.Packet != nil && !s.Cfg.NoFieldEdits {
		p := base.Packet
		reprove := func(a *Action, e *vnet.Chain) bool {
			if e == nil || e == a.On || !HasClient(a.On, e.Name) || !s.W.Fresh(a.On, e) {
				return false
			}
			a.From = e
			a.Signer = a.On.Relayer
			a.Proof, a.PH = vnet.ProofAt(e, proofKey(a), int64(vnet.ClientHeight(a.On, e.Name).RevisionHeight))
			rebuild(a)
			return true
		}
		if p.RelayChain != "" {
			// skip the relay chain: destination proves the receive from the source, source proves the ack from the destination
			a := cloneAction(base, "relay-removed-reproved")
			a.Packet.RelayChain = ""
			if base.Kind == "recv" {
				a.On = s.W.Chain(p.DestinationChain)
				a.Prep = func(a *Action) bool { return reprove(a, s.W.Chain(p.SourceChain)) }
			} else {
				a.On = s.W.Chain(p.SourceChain)
				a.Prep = func(a *Action) bool { return reprove(a, s.W.Chain(p.DestinationChain)) }
			}
			if a.On != nil {
				out = append(out, a)
			}
		}
		if base.Kind == "recv" {
			// divert through a third chain that names itself as the relay
			for _, z := range s.chains() {
				if z.Name == p.SourceChain || z.Name == p.DestinationChain || z.Name == p.RelayChain {
					continue
				}
				z := z
				mut := "relay-added-via-third-chain"
				if p.RelayChain != "" {
					mut = "relay-replaced-via-third-chain"
				}
				a := cloneAction(base, mut)
				a.Packet.RelayChain = z.Name
				a.On = z
				a.Prep = func(a *Action) bool { return reprove(a, s.W.Chain(p.SourceChain)) }
				out = append(out, a)
				break
			}
		}
	}
	// proof damage
	if len(base.Proof) > 4 {
		add("proof-truncated", func(a *Action) { a.Proof = a.Proof[:len(a.Proof)/2] })
		add("proof-bitflip", func(a *Action) { a.Proof[s.Rng.Intn(len(a.Proof))] ^= 1 << uint(s.Rng.Intn(8)) })
		add("proof-random", func(a *Action) { s.Rng.Read(a.Proof) })
	}
	// re-arranged proofs (every element still decodes): once with the genuine fields, the others around a forged message
	if len(base.Proof) > 4 {
		forge := func(a *Action) {
			switch {
			case a.Kind == "ack" && len(a.Ack) > 0:
				a.Ack[s.Rng.Intn(len(a.Ack))] ^= 1 << uint(s.Rng.Intn(8))
			case a.Packet != nil && s.Rng.Intn(3) == 0:
				a.Packet.Sequence += 1000
			case a.Packet != nil:
				a.Packet.Data = append(a.Packet.Data, byte(s.Rng.Intn(256)))
			case a.Clean != nil:
				a.Clean.Sequence++
			}
		}
		for n, i := range s.Rng.Perm(len(ProofStructMutations))[:4] {
			mut := ProofStructMutations[i]
			bz := MutateProofStruct(base.Proof, mut)
			if bz == nil && mut != "empty" {
				continue
			}
			if n == 0 {
				add("proof-struct/"+mut, func(a *Action) { a.Proof = bz })
				continue
			}
			add("forged+proof-struct/"+mut, func(a *Action) { a.Proof = append([]byte{}, bz...); forge(a) })
		}
	}
	// proof height
	add("height-1", func(a *Action) { a.PH.RevisionHeight-- })
	add("height+1", func(a *Action) { a.PH.RevisionHeight++ })
	add("height-future", func(a *Action) { a.PH.RevisionHeight += 1000 })
	add("height-revision+1", func(a *Action) { a.PH.RevisionNumber++ })
	if base.PH.RevisionHeight > 3 {
		add("proof-at-older-height-claimed-current", func(a *Action) {
			key := proofKey(a)
			a.Proof, _ = vnet.ProofAt(from, key, int64(a.PH.RevisionHeight)-1)
		})
	}
	// wrong chain
	for _, c := range s.chains() {
		if c != on {
			c := c
			add("wrong-chain", func(a *Action) {
				a.On = c
				a.Signer = c.Relayer
			})
			break
		}
	}
	// any account (a valid message: relaying needs no registration)
	add("signer-arbitrary", func(a *Action) { a.Signer = s.user(on) })
	return out
}

func proofKey(a *Action) []byte {
	switch a.Kind {
	case "recv":
		return host.PacketCommitmentKey(a.Packet.SourceChain, a.Packet.DestinationChain, a.Packet.Sequence)
	case "ack":
		return host.PacketAcknowledgementKey(a.Packet.SourceChain, a.Packet.DestinationChain, a.Packet.Sequence)
	default:
		return host.CleanPacketCommitmentKey(a.Clean.SourceChain, a.Clean.DestinationChain)
	}
}

// AdvBatch picks a packet and a hop, refreshes the client and fires variants
// of the honest message (the honest message itself is not delivered here).
func (s *PktSim) AdvBatch() {
	recs := s.W.SortedPackets()
	if len(recs) == 0 {
		return
	}
	rec := recs[s.Rng.Intn(len(recs))]
	hops := rec.Hops()
	kind := "recv"
	if rec.AckBytes != nil && s.Rng.Intn(2) == 0 {
		kind = "ack"
	}
	if len(s.cleans) > 0 && s.Rng.Intn(4) == 0 {
		s.advClean()
		return
	}
	var on, from *vnet.Chain
	if kind == "recv" {
		i := 1 + s.Rng.Intn(len(hops)-1)
		on, from = s.W.Chain(hops[i]), s.W.Chain(hops[i-1])
	} else {
		i := s.Rng.Intn(len(hops) - 1)
		on, from = s.W.Chain(hops[i]), s.W.Chain(hops[i+1])
	}
	if on == nil || from == nil || !HasClient(on, from.Name) {
		return
	}
	if !s.W.Fresh(on, from) {
		return
	}
	var base *Action
	if kind == "recv" {
		base = s.W.HonestRecv(rec, on, from, on.Relayer)
	} else {
		base = s.W.HonestAck(rec, on, from, on.Relayer)
	}
	vs := s.Variants(base)
	s.Rng.Shuffle(len(vs), func(i, j int) { vs[i], vs[j] = vs[j], vs[i] })
	if s.Cfg.AdvBatch > 0 && len(vs) > s.Cfg.AdvBatch {
		vs = vs[:s.Cfg.AdvBatch]
	}
	for _, v := range vs {
		if s.W.Stop {
			return
		}
		if v.Prep != nil && !v.Prep(v) {
			continue
		}
		s.W.Do(v)
	}
}

// advClean fires variants of an honest receive-clean.
func (s *PktSim) advClean() {
	cpk := s.cleans[s.Rng.Intn(len(s.cleans))]
	srcC := s.W.Chain(cpk.SourceChain)
	cpk.Sequence = CleanPoint(srcC, cpk.SourceChain, cpk.DestinationChain)
	hops := []string{cpk.SourceChain, cpk.DestinationChain}
	if cpk.RelayChain != "" {
		hops = []string{cpk.SourceChain, cpk.RelayChain, cpk.DestinationChain}
	}
	i := 1 + s.Rng.Intn(len(hops)-1)
	on, from := s.W.Chain(hops[i]), s.W.Chain(hops[i-1])
	if on == nil || from == nil || !HasClient(on, from.Name) || !s.W.Fresh(on, from) {
		return
	}
	base := s.W.HonestRecvClean(cpk, on, from, on.Relayer)
	vs := s.Variants(base)
	s.Rng.Shuffle(len(vs), func(i, j int) { vs[i], vs[j] = vs[j], vs[i] })
	if s.Cfg.AdvBatch > 0 && len(vs) > s.Cfg.AdvBatch {
		vs = vs[:s.Cfg.AdvBatch]
	}
	for _, v := range vs {
		if s.W.Stop {
			return
		}
		s.W.Do(v)
	}
}

// RulesChange replaces the routing rules of one chain through governance and then re-submits, verbatim, a few of
// the receives that chain handled as a relay hop (forwarded or refused) under the old rules.
func (s *PktSim) RulesChange() {
	cs := s.chains()
	c := s.pick()
	var rules []string
	switch s.Rng.Intn(4) {
	case 0:
		rules = []string{"*,*,*"}
	case 1:
		rules = []string{"*,*," + MockPort, cs[0].Name + ",*,NFT"}
	case 2:
		rules = []string{cs[0].Name + ",*,*", "*," + cs[0].Name + ",*"}
	case 3:
		rules = []string{"nochain-one,nochain-two,noport"} // authorises nothing that exists
	}
	msg := &routingtypes.MsgSetRoutingRules{Title: "t", Description: "d", Rules: rules, Authority: c.GovAddr}
	r := s.W.Do(&Action{Kind: "gov-rules", On: c, Note: fmt.Sprint(rules), Exec: func(ctx sdk.Context) error {
		h := c.App.MsgServiceRouter().Handler(msg)
		_, err := h(ctx, msg)
		return err
	}})
	if !r.OK() {
		return
	}
	var olds []*Action
	for _, o := range s.sent {
		if o.Kind == "recv" && o.On == c && o.Packet != nil && o.Packet.RelayChain == c.Name && o.Res != nil && o.Res.OK() {
			olds = append(olds, o)
		}
	}
	for n := 0; n < 4 && len(olds) > 0 && !s.W.Stop; n++ {
		a := cloneAction(olds[s.Rng.Intn(len(olds))], "replay-after-rules-change")
		rebuild(a)
		s.W.Do(a)
	}
	// let the honest relayer carry on for a while, so that whatever the replays started reaches the other chains
	for n := 0; n < 8 && len(olds) > 0 && !s.W.Stop; n++ {
		s.RelayOne()
	}
}

// Replay re-submits an earlier relayed message: verbatim (old proof) or with a
// refreshed proof.
func (s *PktSim) Replay() {
	if len(s.sent) == 0 {
		return
	}
	old := s.sent[s.Rng.Intn(len(s.sent))]
	if s.Rng.Intn(2) == 0 {
		a := cloneAction(old, "replay-verbatim")
		rebuild(a)
		s.W.Do(a)
		return
	}
	if old.From == nil || !HasClient(old.On, old.From.Name) || !s.W.Fresh(old.On, old.From) {
		return
	}
	a := cloneAction(old, "replay-fresh-proof")
	a.Proof, a.PH = vnet.ProofAt(old.From, proofKey(a), int64(vnet.ClientHeight(old.On, old.From.Name).RevisionHeight))
	rebuild(a)
	s.W.Do(a)
}

// Run executes the history.
func (s *PktSim) Run() {
	c := s.Cfg
	for i := 0; i < c.Steps && !s.W.Stop; i++ {
		if c.PRules > 0 && s.Rng.Float64() < c.PRules {
			s.RulesChange()
			continue
		}
		x := s.Rng.Float64()
		switch {
		case x < c.PSend:
			s.Send()
		case x < c.PSend+c.PFailSend:
			s.FailSend()
		case x < c.PSend+c.PFailSend+c.PRelay:
			if !s.RelayOne() {
				s.Send()
			}
		case x < c.PSend+c.PFailSend+c.PRelay+c.PAdv:
			if s.Rng.Intn(3) == 0 {
				s.Replay()
			} else {
				s.AdvBatch()
			}
		case x < c.PSend+c.PFailSend+c.PRelay+c.PAdv+c.PClean:
			s.CleanStep()
		default:
			s.RelayOne()
		}
	}
}

var _ = clienttypes.Height{}
