package world

import (
	ics23 "github.com/cosmos/ics23/go"

	commitmenttypes "github.com/bianjieai/tibc-go/modules/tibc/core/23-commitment/types"
)

// ProofStructMutations are re-arrangements of a well-formed two-step merkle proof (IAVL step, multistore step)
// that keep every element individually decodable: none of them proves anything.
var ProofStructMutations = []string{"drop-first", "drop-last", "swap", "dup-first", "dup-last", "empty",
	"first-unset", "last-unset", "first-batch", "last-batch", "first-compressed", "first-nonexist", "both-unset"}

// MutateProofStruct applies one of ProofStructMutations to an encoded MerkleProof; nil if it cannot be decoded.
func MutateProofStruct(proof []byte, mut string) []byte {
	var mp commitmenttypes.MerkleProof
	if err := mp.Unmarshal(proof); err != nil || len(mp.Proofs) < 2 {
		return nil
	}
	ps := mp.Proofs
	first, last := ps[0], ps[len(ps)-1]
	batchOf := func(p *ics23.CommitmentProof) *ics23.CommitmentProof {
		ex := p.GetExist()
		if ex == nil {
			return &ics23.CommitmentProof{}
		}
		return &ics23.CommitmentProof{Proof: &ics23.CommitmentProof_Batch{Batch: &ics23.BatchProof{
			Entries: []*ics23.BatchEntry{{Proof: &ics23.BatchEntry_Exist{Exist: ex}}}}}}
	}
	var out []*ics23.CommitmentProof
	switch mut {
	case "drop-first":
		out = ps[1:]
	case "drop-last":
		out = ps[:len(ps)-1]
	case "swap":
		out = []*ics23.CommitmentProof{last, first}
	case "dup-first":
		out = []*ics23.CommitmentProof{first, first, last}
	case "dup-last":
		out = []*ics23.CommitmentProof{first, last, last}
	case "empty":
		out = nil
	case "first-unset":
		out = []*ics23.CommitmentProof{{}, last}
	case "last-unset":
		out = []*ics23.CommitmentProof{first, {}}
	case "both-unset":
		out = []*ics23.CommitmentProof{{}, {}}
	case "first-batch":
		out = []*ics23.CommitmentProof{batchOf(first), last}
	case "last-batch":
		out = []*ics23.CommitmentProof{first, batchOf(last)}
	case "first-compressed":
		out = []*ics23.CommitmentProof{{Proof: &ics23.CommitmentProof_Compressed{Compressed: &ics23.CompressedBatchProof{}}}, last}
	case "first-nonexist":
		ex := first.GetExist()
		if ex == nil {
			return nil
		}
		out = []*ics23.CommitmentProof{{Proof: &ics23.CommitmentProof_Nonexist{Nonexist: &ics23.NonExistenceProof{Key: ex.Key, Left: ex}}}, last}
	default:
		return nil
	}
	bz, err := (&commitmenttypes.MerkleProof{Proofs: out}).Marshal()
	if err != nil {
		return nil
	}
	return bz
}
