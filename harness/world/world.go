// Package world drives a vnet network: it tracks every packet the chains
// announce, enumerates the relayer actions that are enabled, builds honest and
// adversarial protocol messages and lets monitors look at every step
// (before / after), recording a replayable log.
package world

import (
	"crypto/sha256"
	"encoding/binary"
	"fmt"
	"hash/fnv"
	"math/rand"
	"sort"
	"strconv"
	"time"

	abci "github.com/cometbft/cometbft/abci/types"
	sdk "github.com/cosmos/cosmos-sdk/types"

	clienttypes "github.com/bianjieai/tibc-go/modules/tibc/core/02-client/types"
	packettypes "github.com/bianjieai/tibc-go/modules/tibc/core/04-packet/types"
	host "github.com/bianjieai/tibc-go/modules/tibc/core/24-host"
	tibckeeper "github.com/bianjieai/tibc-go/modules/tibc/core/keeper"

	"verif/vnet"
)

// PKey identifies a packet.
type PKey struct {
	Src, Dst string
	Seq      uint64
}

func (k PKey) String() string { return fmt.Sprintf("%s>%s#%d", k.Src, k.Dst, k.Seq) }

// PacketRec is what the world knows about a packet from the source's send_packet event.
type PacketRec struct {
	Key      PKey
	Orig     packettypes.Packet // as announced by the source chain
	SentStep int
	AckBytes []byte            // first acknowledgement written for it (by destination, or by the relay chain when it refuses)
	AckOn    map[string][]byte // chain -> acknowledgement that chain announced last (what a relayer proving from it passes on)
	AckBy    string
	AckErr   bool
}

// Hops returns the chain names the packet travels: source, (relay), destination.
func (p *PacketRec) Hops() []string {
	if p.Orig.RelayChain != "" {
		return []string{p.Orig.SourceChain, p.Orig.RelayChain, p.Orig.DestinationChain}
	}
	return []string{p.Orig.SourceChain, p.Orig.DestinationChain}
}

// Callback is one application-callback dispatch reported by hook H1.
type Callback struct {
	Chain  string
	Kind   string // recv | ack
	Packet packettypes.Packet
	Ack    []byte
	Err    string
}

// Action is one step a driver wants to take.
type Action struct {
	Kind   string // send-nft send-mt send-mock recv ack clean recvclean update user gov
	On     *vnet.Chain
	From   *vnet.Chain // proving chain of a relayed message (nil otherwise)
	Msgs   []sdk.Msg
	Signer *vnet.Account
	Gas    uint64
	Packet *packettypes.Packet      // packet carried by recv / ack
	Ack    []byte                   // ack bytes carried by ack
	Clean  *packettypes.CleanPacket // clean / recvclean
	Proof  []byte
	PH     clienttypes.Height
	Honest bool   // built by the honest relayer with a fresh proof through a client updated in this step
	Mut    string // mutation class, "" if none
	Note   string
	// Prep, if set, runs right before delivery (e.g. to refresh a client and rebuild the proof).
	Prep func(a *Action) bool
	// Exec, if set, is run instead of delivering a tx (module / gov execution).
	Exec func(ctx sdk.Context) error
	// filled by Do
	Res       *vnet.Result
	Callbacks []Callback
	Step      int
}

// LogEntry is the replayable record of a step.
type LogEntry struct {
	Step   int      `json:"step"`
	Chain  string   `json:"chain"`
	Kind   string   `json:"kind"`
	Mut    string   `json:"mut,omitempty"`
	Honest bool     `json:"honest,omitempty"`
	Signer string   `json:"signer,omitempty"`
	Msgs   []string `json:"msgs,omitempty"`
	TxHex  string   `json:"tx,omitempty"`
	Height int64    `json:"height"`
	Time   string   `json:"time"`
	Code   uint32   `json:"code"`
	Log    string   `json:"log,omitempty"`
	Diff   []string `json:"diff,omitempty"`
	CBs    []string `json:"callbacks,omitempty"`
}

// Monitor observes steps.
type Monitor interface {
	Before(w *World, a *Action)
	After(w *World, a *Action)
}

// World is one history.
type World struct {
	Net      *vnet.Network
	Rng      *rand.Rand
	Packets  map[PKey]*PacketRec
	Order    []PKey
	Monitors []Monitor
	Log      []LogEntry
	ID       string
	Stop     bool // set by monitors after a violation: the history ends
	pending  []Callback
	sched    []byte // interleaving fingerprint input
}

// chainTag is carried by the app logger so hook H1 can find its chain.
var cbSink = map[*vnet.Chain]*World{}

func init() {
	tibckeeper.VerifCallbackHook = func(ctx sdk.Context, chainName, kind string, packet packettypes.Packet, ack []byte, err error) {
		l, ok := ctx.Logger().(*vnet.ChainLogger)
		if !ok || l.Sink == nil {
			return
		}
		cb := Callback{Chain: chainName, Kind: kind, Packet: packet, Ack: append([]byte{}, ack...)}
		if err != nil {
			cb.Err = err.Error()
		}
		l.Sink(cb)
	}
}

// New wraps a network.
func New(id string, net *vnet.Network, rng *rand.Rand) *World {
	w := &World{Net: net, Rng: rng, Packets: map[PKey]*PacketRec{}, ID: id}
	for _, c := range net.Chains {
		c := c
		c.Logger.Sink = func(v any) { w.pending = append(w.pending, v.(Callback)) }
	}
	return w
}

// Chain by name (nil if unknown).
func (w *World) Chain(name string) *vnet.Chain { return w.Net.ByName[name] }

// Do runs one action with all monitors.
func (w *World) Do(a *Action) *vnet.Result {
	a.Step = len(w.Log)
	for _, m := range w.Monitors {
		m.Before(w, a)
	}
	w.pending = nil
	var r *vnet.Result
	switch {
	case a.Exec != nil:
		r = a.On.Exec(a.Exec)
	default:
		gas := a.Gas
		if gas == 0 {
			gas = vnet.DefaultGas
		}
		r = a.On.DeliverGas(a.Signer, gas, a.Msgs...)
	}
	a.Res = r
	// callbacks of a failed tx were rolled back with it: keep them but mark
	a.Callbacks = w.pending
	w.pending = nil
	w.track(a)
	w.log(a)
	for _, m := range w.Monitors {
		m.After(w, a)
	}
	return r
}

func attr(ev abci.Event, key string) string {
	for _, at := range ev.Attributes {
		if at.Key == key {
			return at.Value
		}
	}
	return ""
}

// PacketFromEvent rebuilds the packet announced by a packet event.
func PacketFromEvent(ev abci.Event) packettypes.Packet {
	seq, _ := strconv.ParseUint(attr(ev, packettypes.AttributeKeySequence), 10, 64)
	return packettypes.Packet{
		Sequence: seq, Port: attr(ev, packettypes.AttributeKeyPort),
		SourceChain: attr(ev, packettypes.AttributeKeySrcChain), DestinationChain: attr(ev, packettypes.AttributeKeyDstChain),
		RelayChain: attr(ev, packettypes.AttributeKeyRelayChain), Data: []byte(attr(ev, packettypes.AttributeKeyData)),
	}
}

func (w *World) track(a *Action) {
	if a.Res == nil || !a.Res.OK() {
		return
	}
	for _, ev := range a.Res.Events {
		switch ev.Type {
		case packettypes.EventTypeSendPacket:
			p := PacketFromEvent(ev)
			if p.SourceChain != a.On.Name {
				continue // re-commit on a relay hop
			}
			k := PKey{p.SourceChain, p.DestinationChain, p.Sequence}
			if _, dup := w.Packets[k]; !dup {
				w.Packets[k] = &PacketRec{Key: k, Orig: p, SentStep: a.Step}
				w.Order = append(w.Order, k)
			}
		case packettypes.EventTypeWriteAck:
			p := PacketFromEvent(ev)
			k := PKey{p.SourceChain, p.DestinationChain, p.Sequence}
			if rec, ok := w.Packets[k]; ok {
				if rec.AckOn == nil {
					rec.AckOn = map[string][]byte{}
				}
				rec.AckOn[a.On.Name] = []byte(attr(ev, packettypes.AttributeKeyAck))
			}
			if rec, ok := w.Packets[k]; ok && rec.AckBytes == nil {
				rec.AckBytes = []byte(attr(ev, packettypes.AttributeKeyAck))
				rec.AckBy = a.On.Name
				var ack packettypes.Acknowledgement
				if ack.Unmarshal(rec.AckBytes) == nil {
					_, rec.AckErr = ack.Response.(*packettypes.Acknowledgement_Error)
				}
			}
		}
	}
}

func (w *World) log(a *Action) {
	r := a.Res
	e := LogEntry{Step: a.Step, Chain: a.On.Name, Kind: a.Kind, Mut: a.Mut, Honest: a.Honest, Height: r.Height,
		Time: r.Time.Format("2006-01-02T15:04:05.999999999Z"), Code: r.Code, Log: r.Log}
	if a.Signer != nil {
		e.Signer = a.Signer.Name
	}
	for _, m := range a.Msgs {
		s := fmt.Sprintf("%T %v", m, m)
		if len(s) > 600 {
			s = s[:600] + "…"
		}
		e.Msgs = append(e.Msgs, s)
	}
	if r.TxBytes != nil {
		e.TxHex = fmt.Sprintf("%x", r.TxBytes)
		if len(e.TxHex) > 4096 {
			e.TxHex = e.TxHex[:4096] + "…"
		}
	}
	for _, kv := range r.Diff {
		e.Diff = append(e.Diff, fmt.Sprintf("%s %q %x->%x", kv.Store, kv.Key, kv.Old, kv.New))
	}
	for _, cb := range a.Callbacks {
		e.CBs = append(e.CBs, fmt.Sprintf("%s %s %s>%s#%d port=%s err=%q", cb.Chain, cb.Kind, cb.Packet.SourceChain, cb.Packet.DestinationChain, cb.Packet.Sequence, cb.Packet.Port, cb.Err))
	}
	w.Log = append(w.Log, e)
	w.sched = append(w.sched, []byte(fmt.Sprintf("%s|%s|%s;", a.On.Name, a.Kind, pk(a)))...)
}

func pk(a *Action) string {
	if a.Packet != nil {
		return fmt.Sprintf("%s>%s#%d", a.Packet.SourceChain, a.Packet.DestinationChain, a.Packet.Sequence)
	}
	if a.Clean != nil {
		return fmt.Sprintf("%s>%s@%d", a.Clean.SourceChain, a.Clean.DestinationChain, a.Clean.Sequence)
	}
	return ""
}

// Fingerprint hashes the sequence of (chain, kind, packet) of the history.
func (w *World) Fingerprint() uint64 {
	h := fnv.New64a()
	h.Write(w.sched)
	return h.Sum64()
}

// Witness returns the tail of the log (the whole log if short).
func (w *World) Witness(max int) map[string]any {
	l := w.Log
	if len(l) > max {
		l = l[len(l)-max:]
	}
	names := []string{}
	for _, c := range w.Net.Chains {
		names = append(names, c.Name)
	}
	return map[string]any{"world": w.ID, "key_seed": w.Net.KeySeed, "chains": names, "steps_total": len(w.Log), "log_tail": l}
}

// ---------- ground truth -------------------------------------------------

// GTAt reads key from c's real tibc store as provable at header height ph
// (IAVL version ph-1). ok=false when that version does not exist.
func GTAt(c *vnet.Chain, ph clienttypes.Height, key []byte) (val []byte, exists, ok bool) {
	if c == nil {
		return nil, false, false
	}
	if ph.RevisionNumber != clienttypes.ParseChainID(c.Name) || ph.RevisionHeight < 2 || int64(ph.RevisionHeight) > c.Height()+1 {
		return nil, false, false
	}
	v, ex := c.StateAt(host.StoreKey, int64(ph.RevisionHeight)-1, key)
	return v, ex, true
}

// Now reads the current committed tibc value.
func Now(c *vnet.Chain, key []byte) []byte { return c.Get(host.StoreKey, key) }

func HasCommitment(c *vnet.Chain, k PKey) bool {
	return Now(c, host.PacketCommitmentKey(k.Src, k.Dst, k.Seq)) != nil
}
func HasReceipt(c *vnet.Chain, k PKey) bool {
	return Now(c, host.PacketReceiptKey(k.Src, k.Dst, k.Seq)) != nil
}
func HasAck(c *vnet.Chain, k PKey) bool {
	return Now(c, host.PacketAcknowledgementKey(k.Src, k.Dst, k.Seq)) != nil
}
func CleanPoint(c *vnet.Chain, src, dst string) uint64 {
	v := Now(c, host.CleanPacketCommitmentKey(src, dst))
	if len(v) != 8 {
		return 0
	}
	return binary.BigEndian.Uint64(v)
}
func MaxAck(c *vnet.Chain, src, dst string) uint64 {
	v := Now(c, host.MaxAckSeqKey(src, dst))
	if len(v) != 8 {
		return 0
	}
	return binary.BigEndian.Uint64(v)
}
func NextSend(c *vnet.Chain, src, dst string) uint64 {
	v := Now(c, host.NextSequenceSendKey(src, dst))
	if len(v) != 8 {
		return 1
	}
	return binary.BigEndian.Uint64(v)
}

func Sha(b []byte) []byte { h := sha256.Sum256(b); return h[:] }

// HasClient reports whether on has a client of `of`.
func HasClient(on *vnet.Chain, of string) bool {
	_, ok := on.App.TIBCKeeper.ClientKeeper.GetClientState(on.Ctx(), of)
	return ok
}

// ---------- honest relayer ----------------------------------------------

// Enabled is a relayer action that the protocol state allows right now.
type Enabled struct {
	Kind string // recv | ack | recvclean
	Rec  *PacketRec
	On   string
	From string
	// recvclean
	Clean packettypes.CleanPacket
}

// EnabledRelays enumerates, from the chains' real state, the honest relayer
// actions that should succeed now.
func (w *World) EnabledRelays() []Enabled {
	var out []Enabled
	for _, k := range w.Order {
		rec := w.Packets[k]
		hops := rec.Hops()
		ok := true
		for _, h := range hops {
			if w.Chain(h) == nil {
				ok = false
			}
		}
		if !ok {
			continue
		}
		for i := 1; i < len(hops); i++ {
			x, e := w.Chain(hops[i]), w.Chain(hops[i-1])
			if !HasClient(x, e.Name) {
				continue
			}
			// cleaned or not is the source chain's word (hops[0]): a hop whose clean point ran ahead of it still gets the relay
			if HasCommitment(e, k) && !HasReceipt(x, k) && k.Seq > CleanPoint(w.Chain(hops[0]), k.Src, k.Dst) {
				out = append(out, Enabled{Kind: "recv", Rec: rec, On: x.Name, From: e.Name})
			}
		}
		for i := len(hops) - 2; i >= 0; i-- {
			x, e := w.Chain(hops[i]), w.Chain(hops[i+1])
			if !HasClient(x, e.Name) {
				continue
			}
			if HasAck(e, k) && HasCommitment(x, k) && rec.AckBytes != nil && k.Seq > CleanPoint(x, k.Src, k.Dst) {
				out = append(out, Enabled{Kind: "ack", Rec: rec, On: x.Name, From: e.Name})
			}
		}
	}
	return out
}

// Fresh makes the proving chain commit a block and updates on's client of it,
// so that the latest state of `from` is provable on `on`.
func (w *World) Fresh(on, from *vnet.Chain) bool {
	w.Do(&Action{Kind: "block", On: from, Exec: func(sdk.Context) error { return nil }})
	hdr := vnet.UpdateHeader(on, from, 0)
	msg, err := clienttypes.NewMsgUpdateClient(from.Name, hdr, on.Relayer.Addr)
	if err != nil {
		return false
	}
	r := w.Do(&Action{Kind: "update", On: on, From: from, Msgs: []sdk.Msg{msg}, Signer: on.Relayer, Honest: true})
	if r.OK() {
		// a client with a confirmation delay only accepts proofs once the delay has elapsed since the update
		if cs, ok := on.App.TIBCKeeper.ClientKeeper.GetClientState(on.Ctx(), from.Name); ok && cs.GetDelayTime() > 0 {
			w.Net.Advance(time.Duration(cs.GetDelayTime()))
		}
	}
	return r.OK()
}

// HonestRecv builds (without delivering) the honest receive of rec on `on`
// proven from `from` at on's current client height.
func (w *World) HonestRecv(rec *PacketRec, on, from *vnet.Chain, signer *vnet.Account) *Action {
	m := vnet.RecvMsg(on, from, rec.Orig, signer.Addr)
	p := rec.Orig
	return &Action{Kind: "recv", On: on, From: from, Msgs: []sdk.Msg{m}, Signer: signer, Packet: &p, Proof: m.ProofCommitment, PH: m.ProofHeight}
}

// HonestAck builds the honest acknowledgement of rec on `on` proven from `from`.
func (w *World) HonestAck(rec *PacketRec, on, from *vnet.Chain, signer *vnet.Account) *Action {
	// a relayer passes on the acknowledgement it saw the proving chain announce
	ack := rec.AckBytes
	if b := rec.AckOn[from.Name]; b != nil {
		ack = b
	}
	m := vnet.AckMsg(on, from, rec.Orig, ack, signer.Addr)
	p := rec.Orig
	return &Action{Kind: "ack", On: on, From: from, Msgs: []sdk.Msg{m}, Signer: signer, Packet: &p, Ack: ack, Proof: m.ProofAcked, PH: m.ProofHeight}
}

// HonestRecvClean builds the honest receive-clean on `on` proven from `from`.
func (w *World) HonestRecvClean(cp packettypes.CleanPacket, on, from *vnet.Chain, signer *vnet.Account) *Action {
	m := vnet.RecvCleanMsg(on, from, cp, signer.Addr)
	c := cp
	return &Action{Kind: "recvclean", On: on, From: from, Msgs: []sdk.Msg{m}, Signer: signer, Clean: &c, Proof: m.ProofCommitment, PH: m.ProofHeight}
}

// Relay performs an enabled action honestly (fresh client update first).
func (w *World) Relay(e Enabled) *Action {
	on, from := w.Chain(e.On), w.Chain(e.From)
	if !w.Fresh(on, from) {
		return nil
	}
	var a *Action
	switch e.Kind {
	case "recv":
		a = w.HonestRecv(e.Rec, on, from, on.Relayer)
	case "ack":
		a = w.HonestAck(e.Rec, on, from, on.Relayer)
	case "recvclean":
		a = w.HonestRecvClean(e.Clean, on, from, on.Relayer)
	}
	a.Honest = true
	w.Do(a)
	return a
}

// SortedPackets returns the tracked packets in send order.
func (w *World) SortedPackets() []*PacketRec {
	out := make([]*PacketRec, 0, len(w.Order))
	for _, k := range w.Order {
		out = append(out, w.Packets[k])
	}
	return out
}

// Pairs returns the (src,dst) pairs that have packets.
func (w *World) Pairs() [][2]string {
	seen := map[[2]string]bool{}
	var out [][2]string
	for _, k := range w.Order {
		p := [2]string{k.Src, k.Dst}
		if !seen[p] {
			seen[p] = true
			out = append(out, p)
		}
	}
	sort.Slice(out, func(i, j int) bool { return out[i][0]+"/"+out[i][1] < out[j][0]+"/"+out[j][1] })
	return out
}
