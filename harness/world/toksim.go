package world

import (
	"fmt"
	"math/rand"

	sdk "github.com/cosmos/cosmos-sdk/types"
	mttypes "mods.irisnet.org/modules/mt/types"
	nfttypes "mods.irisnet.org/modules/nft/types"

	"verif/vnet"
)

// TokenChainNames are alphanumeric so that hostile class ids can spell voucher paths.
var TokenChainNames = []string{"alphachain", "bravochain", "charlienet", "deltachain"}

// TokCfg steers a token history.
type TokCfg struct {
	NChains  int
	Steps    int
	NFT, MT  bool
	Hostile  int // 0 plain class ids, 1 ids containing '/', 2 ids that spell voucher paths of this network
	BurnProb float64
	BadRecv  float64
	// MissingClients leaves out that many one-directional clients of the full mesh (x has no client of y
	// although y has one of x): sends, relay hops, acknowledgements over that edge fail or are refused.
	MissingClients int
	// RelayProb is the share of sends routed through a relay chain (0 = the default third).
	RelayProb float64
}

type heldNft struct {
	chain     *vnet.Chain
	class, id string
	owner     *vnet.Account
}

type heldMt struct {
	chain     *vnet.Chain
	class, id string
}

// TokSim generates user token traffic plus honest relaying.
type TokSim struct {
	W     *World
	Cfg   TokCfg
	Rng   *rand.Rand
	nIDs  int
	mtIDs []heldMt
}

// NewTokNetwork: full mesh of alphanumeric chains with allow-all routing.
func NewTokNetwork(seed int64, rng *rand.Rand, n int) *vnet.Network {
	return NewTokNetworkMissing(seed, rng, n, 0)
}

// NewTokNetworkMissing is NewTokNetwork without `missing` randomly chosen one-directional clients.
func NewTokNetworkMissing(seed int64, rng *rand.Rand, n, missing int) *vnet.Network {
	net := vnet.New(seed, rng, TokenChainNames[:n], 2, 4)
	skip := map[[2]int]bool{}
	for len(skip) < missing {
		i, j := rng.Intn(n), rng.Intn(n)
		if i != j {
			skip[[2]int{i, j}] = true
		}
	}
	for i := range net.Chains {
		for j := range net.Chains {
			if i != j && !skip[[2]int{i, j}] {
				if err := net.CreateClient(net.Chains[i], net.Chains[j], vnet.DefaultClientCfg); err != nil {
					panic(err)
				}
			}
		}
	}
	for _, c := range net.Chains {
		net.SetRules(c, []string{"*,*,*"})
	}
	return net
}

func (s *TokSim) chains() []*vnet.Chain { return s.W.Net.Chains }
func (s *TokSim) pick() *vnet.Chain     { cs := s.chains(); return cs[s.Rng.Intn(len(cs))] }
func (s *TokSim) user(c *vnet.Chain) *vnet.Account {
	return c.Accounts[1+s.Rng.Intn(len(c.Accounts)-1)]
}

// ClassIDs returns candidate native class ids for the hostility level.
func (s *TokSim) classID(c *vnet.Chain) string {
	plain := []string{"kitty", "doggo", "nftart", "nftx"}
	slash := []string{"art/paint", "a/b/c", "kitty/x", "nft/x"}
	switch s.Cfg.Hostile {
	case 1:
		if s.Rng.Intn(2) == 0 {
			return slash[s.Rng.Intn(len(slash))]
		}
	case 2:
		if s.Rng.Intn(2) == 0 {
			// spells the voucher path of another chain's class as seen on this chain
			o := s.pick()
			for o == c {
				o = s.pick()
			}
			base := plain[s.Rng.Intn(2)]
			if s.Rng.Intn(3) == 0 {
				z := s.pick()
				return fmt.Sprintf("nft/%s/%s/%s/%s", o.Name, z.Name, c.Name, base)
			}
			return fmt.Sprintf("nft/%s/%s/%s", o.Name, c.Name, base)
		}
	}
	return plain[s.Rng.Intn(len(plain))]
}

func (s *TokSim) route(src *vnet.Chain) (dst *vnet.Chain, relay string) {
	cs := s.chains()
	dst = s.pick()
	for dst == src {
		dst = s.pick()
	}
	rp := s.Cfg.RelayProb
	if rp == 0 {
		rp = 1.0 / 3
	}
	if len(cs) >= 3 && s.Rng.Float64() < rp {
		var rs []string
		for _, r := range cs {
			if r != src && r != dst {
				rs = append(rs, r.Name)
			}
		}
		return dst, rs[s.Rng.Intn(len(rs))]
	}
	return dst, ""
}

func (s *TokSim) receiver(dst *vnet.Chain) string {
	if s.Rng.Float64() < s.Cfg.BadRecv {
		return "bad-receiver"
	}
	return s.user(dst).Addr.String()
}

// userNfts lists the NFTs currently held by user accounts.
func (s *TokSim) userNfts() []heldNft {
	var out []heldNft
	for _, c := range s.chains() {
		byAddr := map[string]*vnet.Account{}
		for _, a := range c.Accounts {
			byAddr[a.Addr.String()] = a
		}
		for _, h := range NftSnapshot(c) {
			if acc := byAddr[h.Owner]; acc != nil {
				out = append(out, heldNft{c, h.Class, h.ID, acc})
			}
		}
	}
	return out
}

type mtHolding struct {
	chain     *vnet.Chain
	class, id string
	owner     *vnet.Account
	amount    uint64
}

func (s *TokSim) userMts() []mtHolding {
	var out []mtHolding
	for _, c := range s.chains() {
		byAddr := map[string]*vnet.Account{}
		for _, a := range c.Accounts {
			byAddr[a.Addr.String()] = a
		}
		bals, _ := MtSnapshot(c)
		for _, b := range bals {
			if acc := byAddr[b.Owner]; acc != nil && b.Amount > 0 {
				out = append(out, mtHolding{c, b.Class, b.ID, acc, b.Amount})
			}
		}
	}
	return out
}

// Amounts of interest for MT.
func (s *TokSim) amount(max uint64) uint64 {
	cands := []uint64{1, 2, 1 << 32, 1<<63 - 1, 1 << 63, ^uint64(0) - 1, ^uint64(0), max, max / 2, max - 1}
	for try := 0; try < 8; try++ {
		a := cands[s.Rng.Intn(len(cands))]
		if a >= 1 && a <= max {
			return a
		}
	}
	if max <= 1 {
		return 1
	}
	return 1 + uint64(s.Rng.Int63n(int64(min64(max, 1<<62))))
}

func min64(a, b uint64) uint64 {
	if a < b {
		return a
	}
	return b
}

// Step performs one random action.
func (s *TokSim) Step() {
	w := s.W
	x := s.Rng.Float64()
	switch {
	case x < 0.33:
		en := w.EnabledRelays()
		if len(en) > 0 {
			w.Relay(en[s.Rng.Intn(len(en))])
			return
		}
		fallthrough
	case x < 0.50 && s.Cfg.NFT:
		// mint a new native NFT
		c := s.pick()
		u := s.user(c)
		class := s.classID(c)
		if !c.App.NftKeeper.HasDenom(c.Ctx(), class) {
			if r := w.IssueNftClass(c, u, class); !r.OK() {
				return
			}
		}
		s.nIDs++
		id := fmt.Sprintf("tok%d", s.nIDs%5) // few ids: the same id appears in several classes / chains
		if s.Cfg.Hostile == 1 && s.Rng.Intn(3) == 0 {
			id = fmt.Sprintf("id/%d", s.nIDs%3)
		}
		if NftOwner(c, class, id) == "" {
			w.MintNft(c, u, class, id, s.user(c).Addr)
		}
	case x < 0.72 && s.Cfg.NFT:
		hs := s.userNfts()
		if len(hs) == 0 {
			return
		}
		h := hs[s.Rng.Intn(len(hs))]
		dst, relay := s.route(h.chain)
		if s.Rng.Intn(10) == 0 {
			// somebody else tries to send the token, once towards every other chain so that both the lock and the
			// burn (voucher going home) direction are tried: each must fail and change nothing
			for _, a := range h.chain.Accounts[1:] {
				if a == h.owner {
					continue
				}
				for _, d := range s.chains() {
					if d != h.chain && !w.Stop {
						w.SendNft(h.chain, a, h.class, h.id, s.receiver(d), d.Name, "")
					}
				}
				break
			}
			return
		}
		w.SendNft(h.chain, h.owner, h.class, h.id, s.receiver(dst), dst.Name, relay)
	case x < 0.735 && s.Cfg.NFT:
		// hostile: try to mint straight into a voucher class that exists on some chain (must be refused)
		c := s.pick()
		var vcs []string
		seen := map[string]bool{}
		for _, h := range NftSnapshot(c) {
			if IsVoucherClass(h.Class) && !seen[h.Class] {
				seen[h.Class] = true
				vcs = append(vcs, h.Class)
			}
		}
		if len(vcs) == 0 {
			return
		}
		u := s.user(c)
		s.nIDs++
		w.Do(&Action{Kind: "user-nft-mint", On: c, Signer: u, Mut: "mint-into-voucher-class", Note: vcs[0],
			Msgs: []sdk.Msg{nfttypes.NewMsgMintNFT(fmt.Sprintf("tok%d", s.nIDs%5), vcs[s.Rng.Intn(len(vcs))], "", "", "", "", u.Addr.String(), u.Addr.String())}})
	case x < 0.76 && s.Cfg.NFT:
		hs := s.userNfts()
		if len(hs) == 0 {
			return
		}
		h := hs[s.Rng.Intn(len(hs))]
		if s.Rng.Float64() < s.Cfg.BurnProb {
			w.BurnNft(h.chain, h.owner, h.class, h.id)
		} else {
			w.TransferNftLocal(h.chain, h.owner, h.class, h.id, s.user(h.chain).Addr)
		}
	case x < 0.84 && s.Cfg.MT:
		c := s.pick()
		u := s.user(c)
		if len(s.mtIDs) == 0 || s.Rng.Intn(3) == 0 {
			den, r := w.IssueMtDenom(c, u, "mtclass")
			if !r.OK() || den == "" {
				return
			}
			id, r2 := w.MintMt(c, u, den, "", s.amount(^uint64(0)), s.user(c).Addr)
			if r2.OK() && id != "" {
				s.mtIDs = append(s.mtIDs, heldMt{c, den, id})
				// a second id in the same class now and then
				if s.Rng.Intn(2) == 0 {
					if id2, r3 := w.MintMt(c, u, den, "", s.amount(1<<40), s.user(c).Addr); r3.OK() && id2 != "" {
						s.mtIDs = append(s.mtIDs, heldMt{c, den, id2})
					}
				}
			}
			return
		}
		// mint more of an existing native MT (may hit the 64-bit limit -> must be refused)
		h := s.mtIDs[s.Rng.Intn(len(s.mtIDs))]
		den, _ := h.chain.App.MtKeeper.GetDenom(h.chain.Ctx(), h.class)
		for _, a := range h.chain.Accounts {
			if a.Addr.String() == den.Owner {
				w.MintMt(h.chain, a, h.class, h.id, s.amount(^uint64(0)), s.user(h.chain).Addr)
			}
		}
	case s.Cfg.MT:
		hs := s.userMts()
		if len(hs) == 0 {
			return
		}
		h := hs[s.Rng.Intn(len(hs))]
		switch y := s.Rng.Float64(); {
		case y < 0.75:
			dst, relay := s.route(h.chain)
			amt := s.amount(h.amount)
			if s.Rng.Intn(12) == 0 {
				amt = h.amount + 1 // more than owned: must fail
			}
			w.SendMt(h.chain, h.owner, h.class, h.id, amt, s.receiver(dst), dst.Name, relay)
		case y < 0.75+s.Cfg.BurnProb:
			if IsVoucherClass(h.class) && s.Rng.Intn(2) == 0 {
				// hostile: try to mint more of a voucher (must be refused: only the transfer module may)
				w.Do(&Action{Kind: "user-mt-mint", On: h.chain, Signer: h.owner, Mut: "mint-into-voucher-class",
					Msgs: []sdk.Msg{mttypes.NewMsgMintMT(h.id, h.class, 1+uint64(s.Rng.Intn(100)), "", h.owner.Addr.String(), h.owner.Addr.String())}})
				return
			}
			w.BurnMt(h.chain, h.owner, h.class, h.id, s.amount(h.amount))
		default:
			w.TransferMtLocal(h.chain, h.owner, h.class, h.id, s.amount(h.amount), s.user(h.chain).Addr)
		}
	}
}

// Run executes the history and then drains the relayer.
func (s *TokSim) Run() {
	for i := 0; i < s.Cfg.Steps && !s.W.Stop; i++ {
		s.Step()
	}
	for i := 0; i < 200 && !s.W.Stop; i++ {
		en := s.W.EnabledRelays()
		if len(en) == 0 {
			return
		}
		s.W.Relay(en[s.Rng.Intn(len(en))])
	}
}
