// Package mon holds what every monitor shares: counting what was judged,
// three-valued verdicts, known-findings matching, evidence and replay files.
package mon

import (
	"bufio"
	"encoding/json"
	"fmt"
	"hash/fnv"
	"os"
	"path/filepath"
	"regexp"
	"sort"
	"strconv"
	"strings"
	"sync"
	"time"
)

// Root of the verification tree (evidence/, replays/, known_findings.jsonl).
func Root() string {
	if r := os.Getenv("VERIF_ROOT"); r != "" {
		return r
	}
	return "/verif"
}

// Seed returns VERIF_SEED (default 1).
func Seed() int64 {
	if s := os.Getenv("VERIF_SEED"); s != "" {
		if v, err := strconv.ParseInt(s, 10, 64); err == nil {
			return v
		}
	}
	return 1
}

// Tier returns "quick" or "thorough" (VERIF_TIER).
func Tier() string {
	if os.Getenv("VERIF_TIER") == "thorough" {
		return "thorough"
	}
	return "quick"
}

// Scale picks by tier.
func Scale(quick, thorough int) int {
	if Tier() == "thorough" {
		return thorough
	}
	return quick
}

// Violation is one refuting observation.
type Violation struct {
	Kind    string            `json:"kind"`
	Attrs   map[string]string `json:"attrs"`
	Detail  string            `json:"detail"`
	Witness any               `json:"witness,omitempty"`
	Replay  string            `json:"replay,omitempty"`
	Known   string            `json:"known_finding,omitempty"`
}

type finding struct {
	Status   string            `json:"status"` // known | fixed
	Property string            `json:"property"`
	ID       string            `json:"id"`
	Kind     string            `json:"kind"`
	Match    map[string]string `json:"match"`
	What     string            `json:"what"`
	Commit   string            `json:"commit,omitempty"`
}

// Recorder accumulates what one check observed.
type Recorder struct {
	mu        sync.Mutex
	Property  string
	Level     string
	Rule      string
	start     time.Time
	evals     int64
	distinct  map[uint64]struct{}
	counts    map[string]int64
	samples   []any
	maxSample int
	viol      []Violation
	known     map[string]int
	inconcl   []string
	required  map[string]bool
	findings  []finding
	extra     map[string]any
	Assume    []string
	nReplay   int
}

// New creates the recorder of a property check.
func New(property, level, rule string) *Recorder {
	r := &Recorder{Property: property, Level: level, Rule: rule, start: time.Now(), distinct: map[uint64]struct{}{},
		counts: map[string]int64{}, maxSample: 5, known: map[string]int{}, required: map[string]bool{}, extra: map[string]any{}}
	r.loadFindings()
	return r
}

func (r *Recorder) loadFindings() {
	f, err := os.Open(filepath.Join(Root(), "known_findings.jsonl"))
	if err != nil {
		return
	}
	defer f.Close()
	sc := bufio.NewScanner(f)
	sc.Buffer(make([]byte, 1<<20), 1<<20)
	for sc.Scan() {
		line := strings.TrimSpace(sc.Text())
		if line == "" || strings.HasPrefix(line, "#") {
			continue
		}
		var fd finding
		if json.Unmarshal([]byte(line), &fd) == nil && fd.Property == r.Property && fd.Status == "known" {
			r.findings = append(r.findings, fd)
		}
	}
}

// Judge counts one oracle evaluation. class is the coarse input class (counted
// by name); key identifies the (abstract state, input) pair for distinctness.
func (r *Recorder) Judge(class string, key ...any) {
	h := fnv.New64a()
	fmt.Fprint(h, class)
	for _, k := range key {
		fmt.Fprintf(h, "|%v", k)
	}
	r.mu.Lock()
	r.evals++
	r.counts[class]++
	r.distinct[h.Sum64()] = struct{}{}
	r.mu.Unlock()
}

// Count bumps a named counter without counting an evaluation.
func (r *Recorder) Count(name string, n int64) {
	r.mu.Lock()
	r.counts[name] += n
	r.mu.Unlock()
}

// Get returns a counter.
func (r *Recorder) Get(name string) int64 {
	r.mu.Lock()
	defer r.mu.Unlock()
	return r.counts[name]
}

// Require declares a counter that must be > 0 at the end, else the run is inconclusive.
func (r *Recorder) Require(names ...string) {
	r.mu.Lock()
	for _, n := range names {
		r.required[n] = true
	}
	r.mu.Unlock()
}

// Sample keeps up to 5 written-out cases.
func (r *Recorder) Sample(s any) {
	r.mu.Lock()
	if len(r.samples) < r.maxSample {
		r.samples = append(r.samples, s)
	}
	r.mu.Unlock()
}

// Samples returns the samples kept so far.
func (r *Recorder) Samples() []any {
	r.mu.Lock()
	defer r.mu.Unlock()
	return r.samples
}

// Extra adds a key to the evidence coverage object.
func (r *Recorder) Extra(k string, v any) {
	r.mu.Lock()
	r.extra[k] = v
	r.mu.Unlock()
}

// Inconclusive records a reason why nothing can be concluded.
func (r *Recorder) Inconclusive(reason string) {
	r.mu.Lock()
	r.inconcl = append(r.inconcl, reason)
	r.mu.Unlock()
}

func matchAttr(pattern, val string) bool {
	if strings.HasPrefix(pattern, "~") {
		ok, _ := regexp.MatchString(pattern[1:], val)
		return ok
	}
	return pattern == val
}

// Violate records a refutation. If a committed known finding matches its
// descriptor it is reported as KNOWN-FINDING instead.
func (r *Recorder) Violate(kind string, attrs map[string]string, detail string, witness any) {
	r.mu.Lock()
	defer r.mu.Unlock()
	v := Violation{Kind: kind, Attrs: attrs, Detail: detail, Witness: witness}
	for _, f := range r.findings {
		if !matchAttr(f.Kind, kind) {
			continue
		}
		ok := true
		for k, p := range f.Match {
			if !matchAttr(p, attrs[k]) {
				ok = false
				break
			}
		}
		if ok {
			v.Known = f.ID
			if r.known[f.ID] == 0 {
				fmt.Printf("KNOWN-FINDING: property=%s %s: %s\n", r.Property, f.ID, f.What)
			}
			r.known[f.ID]++
			if r.known[f.ID] <= 2 {
				v.Witness = nil
				r.viol = append(r.viol, v)
			}
			return
		}
	}
	r.nReplay++
	dir := filepath.Join(Root(), "replays")
	os.MkdirAll(dir, 0o755)
	path := filepath.Join(dir, fmt.Sprintf("%s-%d-%d.json", r.Property, Seed(), r.nReplay))
	bz, _ := json.MarshalIndent(map[string]any{"property": r.Property, "seed": Seed(), "tier": Tier(), "kind": kind, "attrs": attrs, "detail": detail, "witness": witness}, "", " ")
	os.WriteFile(path, bz, 0o644)
	v.Replay = path
	v.Witness = nil
	if r.nReplay <= 20 {
		fmt.Printf("VIOLATION property=%s replay=%s\n", r.Property, path)
		fmt.Printf("  kind=%s attrs=%v %s\n", kind, attrs, detail)
	}
	r.viol = append(r.viol, v)
}

// loadRaceSummary folds the result of run.sh's race-detector pass (if any) into the verdict: a data race that
// involves tibc-go module code is a violation, the others are listed.
func (r *Recorder) loadRaceSummary() {
	path := os.Getenv("VERIF_RACE_SUMMARY")
	if path == "" {
		return
	}
	bz, err := os.ReadFile(path)
	if err != nil {
		return
	}
	var sum struct {
		Reports      int `json:"reports"`
		TibcReports  int `json:"tibc_reports"`
		DistinctTibc []struct {
			Count  int      `json:"count"`
			Frames []string `json:"frames"`
		} `json:"distinct_tibc"`
		Others []any `json:"others"`
	}
	if json.Unmarshal(bz, &sum) != nil {
		return
	}
	r.Extra("race_detector_pass", map[string]any{"reports": sum.Reports, "reports_involving_tibc_go": sum.TibcReports, "other_reports_sample": sum.Others})
	for _, d := range sum.DistinctTibc {
		r.Violate("data-race", map[string]string{"frames": strings.Join(d.Frames, " | ")}, fmt.Sprintf("%d race reports", d.Count), d.Frames)
	}
}

// Unlisted returns the number of violations not covered by known findings.
func (r *Recorder) Unlisted() int {
	r.mu.Lock()
	defer r.mu.Unlock()
	n := 0
	for _, v := range r.viol {
		if v.Known == "" {
			n++
		}
	}
	return n
}

// Finish writes the evidence file and returns the process exit code:
// 0 held on what was observed, 1 violation, 3 inconclusive.
func (r *Recorder) Finish() int {
	r.loadRaceSummary()
	r.mu.Lock()
	defer r.mu.Unlock()
	for n := range r.required {
		if r.counts[n] == 0 {
			r.inconcl = append(r.inconcl, "required event class never observed: "+n)
		}
	}
	sort.Strings(r.inconcl)
	// every listed finding of the property is announced, also when this run's workload did not reproduce it
	for _, f := range r.findings {
		if r.known[f.ID] == 0 {
			fmt.Printf("KNOWN-FINDING: property=%s %s: %s [not reproduced by this run's workload]\n", r.Property, f.ID, f.What)
		}
	}
	unlisted := 0
	for _, v := range r.viol {
		if v.Known == "" {
			unlisted++
		}
	}
	cov := map[string]any{
		"evaluations":         r.evals,
		"distinct_nontrivial": len(r.distinct),
		"rule":                r.Rule,
		"samples":             r.samples,
		"counts":              r.counts,
		"known_findings_hit":  r.known,
		"inconclusive":        r.inconcl,
	}
	if len(r.samples) == 0 {
		cov["samples"] = []any{"(no sample recorded)"}
	}
	for k, v := range r.extra {
		cov[k] = v
	}
	vi := r.viol
	if len(vi) > 30 {
		vi = vi[:30]
	}
	ev := map[string]any{
		"property_id":       r.Property,
		"tier":              Tier(),
		"seed":              Seed(),
		"level":             r.Level,
		"coverage":          cov,
		"assumptions":       r.Assume,
		"wall_s":            time.Since(r.start).Seconds(),
		"violations":        unlisted,
		"violation_details": vi,
	}
	if r.Assume == nil {
		ev["assumptions"] = []string{}
	}
	dir := filepath.Join(Root(), "evidence")
	os.MkdirAll(dir, 0o755)
	bz, _ := json.MarshalIndent(ev, "", " ")
	os.WriteFile(filepath.Join(dir, r.Property+".json"), bz, 0o644)

	fmt.Printf("SUMMARY property=%s tier=%s seed=%d evaluations=%d distinct=%d violations=%d known=%v wall=%.1fs\n",
		r.Property, Tier(), Seed(), r.evals, len(r.distinct), unlisted, r.known, time.Since(r.start).Seconds())
	keys := make([]string, 0, len(r.counts))
	for k := range r.counts {
		keys = append(keys, k)
	}
	sort.Strings(keys)
	for _, k := range keys {
		fmt.Printf("  count %-48s %d\n", k, r.counts[k])
	}
	if unlisted > 0 {
		return 1
	}
	if len(r.inconcl) > 0 {
		for _, s := range r.inconcl {
			fmt.Printf("INCONCLUSIVE property=%s reason=%s\n", r.Property, s)
		}
		return 3
	}
	return 0
}
