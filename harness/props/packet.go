// Package props holds the per-property monitors.
package props

import (
	"bytes"
	"encoding/binary"
	"fmt"
	"strconv"
	"strings"

	packettypes "github.com/bianjieai/tibc-go/modules/tibc/core/04-packet/types"
	host "github.com/bianjieai/tibc-go/modules/tibc/core/24-host"
	"github.com/bianjieai/tibc-go/modules/tibc/core/exported"

	"verif/mon"
	"verif/vnet"
	"verif/world"
)

func be64(n uint64) []byte { b := make([]byte, 8); binary.BigEndian.PutUint64(b, n); return b }

// logClass maps an error log to a short, stable class for distinctness counting.
func logClass(log string) string {
	for _, s := range []string{"already has been received", "sequence illegal", "packet/ack illegal", "commitment bytes are not equal",
		"failed packet commitment verification", "failed packet acknowledgement verification", "client not found", "route not found",
		"callback failed", "acknowledgement already exists", "unauthorized", "out of gas", "invalid proof", "cannot be empty", "not active"} {
		if strings.Contains(log, s) {
			return s
		}
	}
	if len(log) > 40 {
		return log[:40]
	}
	return log
}

func role(on string, p packettypes.Packet) string {
	switch on {
	case p.SourceChain:
		return "source"
	case p.RelayChain:
		return "relay"
	case p.DestinationChain:
		return "destination"
	}
	return "other"
}

func okStr(b bool) string {
	if b {
		return "accepted"
	}
	return "rejected"
}

func violate(w *world.World, r *mon.Recorder, kind string, attrs map[string]string, detail string) {
	r.Violate(kind, attrs, detail, w.Witness(40))
	w.Stop = true
}

// provingChain is the chain the implementation must prove a receive from.
func provingChainRecv(on string, p packettypes.Packet) string {
	if p.DestinationChain == on && p.RelayChain != "" {
		return p.RelayChain
	}
	return p.SourceChain
}

func provingChainAck(on string, p packettypes.Packet) string {
	if p.SourceChain == on && p.RelayChain != "" {
		return p.RelayChain
	}
	return p.DestinationChain
}

// consensusRootMatches: the verifier's stored consensus root for ph equals the real app hash of the proving chain.
func consensusRootMatches(on, e *vnet.Chain, ph exported.Height) bool {
	cs, ok := on.App.TIBCKeeper.ClientKeeper.GetClientConsensusState(on.Ctx(), e.Name, ph)
	if !ok {
		return false
	}
	real := e.AppHashAt(int64(ph.GetRevisionHeight()) - 1)
	return real != nil && bytes.Equal(cs.GetRoot().GetHash(), real)
}

// ---------------------------------------------------------------- C01

// C01 judges every MsgRecvPacket: accepted => the proving chain really holds
// the commitment at the proof height; rejected => no state change.
type C01 struct{ R *mon.Recorder }

func (m *C01) Before(w *world.World, a *world.Action) {}
func (m *C01) After(w *world.World, a *world.Action) {
	if a.Kind != "recv" || a.Packet == nil || a.Res.Space == "verif-build" {
		return
	}
	p := *a.Packet
	acc := a.Res.OK()
	m.R.Judge("recv/"+okStr(acc)+"/"+mutClass(a), a.Mut, acc, role(a.On.Name, p), logClass(a.Res.Log), p.RelayChain != "", p.Port)
	if !acc {
		m.R.Count("recv-rejected", 1)
		if len(a.Res.Diff) != 0 {
			violate(w, m.R, "rejected-recv-changed-state", map[string]string{"mut": a.Mut, "role": role(a.On.Name, p)},
				fmt.Sprintf("rejected MsgRecvPacket left %d store changes: %s", len(a.Res.Diff), a.Res.Log))
		}
		return
	}
	m.R.Count("recv-accepted", 1)
	if a.Mut != "" {
		m.R.Count("recv-accepted-mutated", 1)
	}
	eName := provingChainRecv(a.On.Name, p)
	e := w.Chain(eName)
	val, exists, ok := world.GTAt(e, a.PH, host.PacketCommitmentKey(p.SourceChain, p.DestinationChain, p.Sequence))
	switch {
	case e == nil:
		violate(w, m.R, "recv-accepted-from-unknown-chain", map[string]string{"mut": a.Mut}, "proving chain "+eName+" does not exist")
	case !ok:
		violate(w, m.R, "recv-accepted-at-unprovable-height", map[string]string{"mut": a.Mut}, fmt.Sprintf("proof height %s is not a height of %s", a.PH, eName))
	case !exists || !bytes.Equal(val, world.Sha(p.Data)):
		violate(w, m.R, "recv-accepted-without-commitment", map[string]string{"mut": a.Mut, "role": role(a.On.Name, p)},
			fmt.Sprintf("%s accepted %s>%s#%d but %s@%s holds commitment %x (want %x)", a.On.Name, p.SourceChain, p.DestinationChain, p.Sequence, eName, a.PH, val, world.Sha(p.Data)))
	case !consensusRootMatches(a.On, e, a.PH):
		violate(w, m.R, "recv-accepted-against-wrong-root", map[string]string{"mut": a.Mut}, "stored consensus root differs from the proving chain's real app hash")
	}
}

func mutClass(a *world.Action) string {
	if a.Mut == "" {
		if a.Honest {
			return "honest"
		}
		return "plain"
	}
	return a.Mut
}

// ---------------------------------------------------------------- C02

// C02: at-most-once processing per (chain, src, dst, seq); honest fresh relays are accepted.
type C02 struct {
	R        *mon.Recorder
	cb       map[string]int
	accepted map[string]int
	expect   bool
	why      string
}

func (m *C02) Before(w *world.World, a *world.Action) {
	m.expect = false
	if a.Kind != "recv" || !a.Honest || a.Packet == nil || a.From == nil {
		return
	}
	p := *a.Packet
	k := world.PKey{Src: p.SourceChain, Dst: p.DestinationChain, Seq: p.Sequence}
	on := a.On
	if !bytes.Equal(world.Now(a.From, host.PacketCommitmentKey(k.Src, k.Dst, k.Seq)), world.Sha(p.Data)) {
		return
	}
	// "cleaned" is decided by the source chain, the only place a clean can originate: no other chain's
	// clean point may be ahead of it
	cleanedBy := on
	if src := w.Chain(k.Src); src != nil {
		cleanedBy = src
	}
	if world.HasReceipt(on, k) || k.Seq <= world.CleanPoint(cleanedBy, k.Src, k.Dst) {
		return
	}
	if clientStatus(on, a.From.Name) != exported.Active {
		return
	}
	if on.Name == p.DestinationChain {
		if p.Port != "NFT" && p.Port != "MT" && p.Port != world.MockPort {
			return
		}
	} else if on.Name == p.RelayChain {
		if !world.HasClient(on, p.DestinationChain) {
			return // C11's business
		}
	} else {
		return
	}
	m.expect = true
}

func clientStatus(on *vnet.Chain, of string) exported.Status {
	ctx := on.Ctx()
	cs, ok := on.App.TIBCKeeper.ClientKeeper.GetClientState(ctx, of)
	if !ok {
		return exported.Unknown
	}
	return cs.Status(ctx, on.App.TIBCKeeper.ClientKeeper.ClientStore(ctx, of), on.App.AppCodec())
}

func (m *C02) After(w *world.World, a *world.Action) {
	if m.cb == nil {
		m.cb, m.accepted = map[string]int{}, map[string]int{}
	}
	if a.Res.OK() {
		for _, cb := range a.Callbacks {
			if cb.Kind != "recv" {
				continue
			}
			key := fmt.Sprintf("%s|%s>%s#%d", cb.Chain, cb.Packet.SourceChain, cb.Packet.DestinationChain, cb.Packet.Sequence)
			m.cb[key]++
			m.R.Judge("recv-callback", key, m.cb[key], w.ID)
			m.R.Count("recv-callbacks", 1)
			if m.cb[key] > 1 {
				violate(w, m.R, "recv-callback-twice", map[string]string{"mut": a.Mut, "port": cb.Packet.Port},
					"destination application processed "+key+" "+strconv.Itoa(m.cb[key])+" times")
			}
		}
	}
	if a.Kind != "recv" || a.Packet == nil {
		return
	}
	p := *a.Packet
	key := fmt.Sprintf("%s|%s>%s#%d", a.On.Name, p.SourceChain, p.DestinationChain, p.Sequence)
	m.R.Judge("recv-once/"+okStr(a.Res.OK())+"/"+mutClass(a), a.Mut, a.Res.OK(), m.accepted[key], role(a.On.Name, p), logClass(a.Res.Log),
		p.Sequence <= world.CleanPoint(a.On, p.SourceChain, p.DestinationChain))
	if a.Res.OK() {
		m.accepted[key]++
		if m.accepted[key] > 1 {
			violate(w, m.R, "recv-accepted-twice", map[string]string{"mut": a.Mut, "role": role(a.On.Name, p)},
				key+" accepted "+strconv.Itoa(m.accepted[key])+" times")
		}
	} else if m.accepted[key] > 0 {
		m.R.Count("replay-after-accept-rejected", 1)
	}
	if m.expect {
		m.R.Count("honest-recv-expected-accept", 1)
		if !a.Res.OK() {
			violate(w, m.R, "honest-recv-rejected", map[string]string{"role": role(a.On.Name, p), "log": logClass(a.Res.Log), "port": p.Port},
				"fresh honest relay of a committed, undelivered, uncleaned packet was rejected: "+a.Res.Log)
		}
	}
}

// ---------------------------------------------------------------- C03

// C03: acknowledgements are authentic, written once, processed at most once.
type C03 struct {
	R        *mon.Recorder
	pre      []byte
	cb       map[string]int
	accepted map[string]int
}

func (m *C03) Before(w *world.World, a *world.Action) {
	m.pre = nil
	if a.Kind == "ack" && a.Packet != nil {
		p := a.Packet
		m.pre = world.Now(a.On, host.PacketCommitmentKey(p.SourceChain, p.DestinationChain, p.Sequence))
	}
}

func (m *C03) After(w *world.World, a *world.Action) {
	if m.cb == nil {
		m.cb, m.accepted = map[string]int{}, map[string]int{}
	}
	// generic: acks are write-once, commitments vanish only through an accepted ack
	for _, kv := range a.Res.Diff {
		if kv.Store != "tibc" {
			continue
		}
		if strings.HasPrefix(kv.Key, "acks/") {
			m.R.Judge("ack-key-diff", kv.Created(), kv.Deleted(), a.Kind)
			if kv.Old != nil && kv.New != nil {
				violate(w, m.R, "ack-overwritten", map[string]string{"kind": a.Kind, "mut": a.Mut}, "stored acknowledgement "+kv.Key+" changed value")
			}
			if kv.Created() && (len(kv.New) != 32 || bytes.Equal(kv.New, world.Sha(nil))) {
				violate(w, m.R, "empty-ack-recorded", map[string]string{"kind": a.Kind}, fmt.Sprintf("ack hash %x at %s", kv.New, kv.Key))
			}
			if kv.Deleted() && a.Kind != "clean" && a.Kind != "recvclean" {
				violate(w, m.R, "ack-deleted-outside-clean", map[string]string{"kind": a.Kind}, kv.Key)
			}
		}
		if strings.HasPrefix(kv.Key, "commitments/") && kv.Deleted() {
			if !(a.Kind == "ack" && a.Res.OK() && a.Packet != nil &&
				kv.Key == string(host.PacketCommitmentKey(a.Packet.SourceChain, a.Packet.DestinationChain, a.Packet.Sequence))) {
				violate(w, m.R, "commitment-vanished-without-ack", map[string]string{"kind": a.Kind, "mut": a.Mut}, kv.Key)
			}
		}
	}
	// receiving side: the recorded ack is the one the application returned
	if a.Res.OK() && a.Kind == "recv" && a.Packet != nil {
		for _, cb := range a.Callbacks {
			if cb.Kind != "recv" || cb.Err != "" {
				continue
			}
			p := cb.Packet
			got := world.Now(a.On, host.PacketAcknowledgementKey(p.SourceChain, p.DestinationChain, p.Sequence))
			m.R.Judge("recorded-ack-vs-returned", p.Port, len(cb.Ack) == 0, a.Mut)
			m.R.Count("recorded-ack-checked", 1)
			if len(cb.Ack) == 0 {
				// no acknowledgement yet (an application may write it later): nothing may be recorded now
				m.R.Count("recv-without-ack-from-app", 1)
				if got != nil {
					violate(w, m.R, "empty-ack-recorded", map[string]string{"kind": a.Kind}, fmt.Sprintf("app returned an empty acknowledgement, stored hash %x", got))
				}
			} else if !bytes.Equal(got, world.Sha(cb.Ack)) {
				violate(w, m.R, "recorded-ack-differs-from-returned", map[string]string{"port": p.Port},
					fmt.Sprintf("app returned %q, stored hash %x", cb.Ack, got))
			}
		}
	}
	if a.Res.OK() {
		for _, cb := range a.Callbacks {
			if cb.Kind != "ack" {
				continue
			}
			key := fmt.Sprintf("%s|%s>%s#%d", cb.Chain, cb.Packet.SourceChain, cb.Packet.DestinationChain, cb.Packet.Sequence)
			m.cb[key]++
			m.R.Count("ack-callbacks", 1)
			if m.cb[key] > 1 {
				violate(w, m.R, "ack-callback-twice", map[string]string{"mut": a.Mut}, key)
			}
		}
	}
	if a.Kind != "ack" || a.Packet == nil || a.Res.Space == "verif-build" {
		return
	}
	p := *a.Packet
	acc := a.Res.OK()
	key := fmt.Sprintf("%s|%s>%s#%d", a.On.Name, p.SourceChain, p.DestinationChain, p.Sequence)
	m.R.Judge("ack/"+okStr(acc)+"/"+mutClass(a), a.Mut, acc, role(a.On.Name, p), logClass(a.Res.Log), p.RelayChain != "", m.accepted[key])
	if !acc {
		m.R.Count("ack-rejected", 1)
		if len(a.Res.Diff) != 0 {
			violate(w, m.R, "rejected-ack-changed-state", map[string]string{"mut": a.Mut}, a.Res.Log)
		}
		return
	}
	m.R.Count("ack-accepted", 1)
	m.accepted[key]++
	if m.accepted[key] > 1 {
		violate(w, m.R, "ack-accepted-twice", map[string]string{"mut": a.Mut}, key)
	}
	if !bytes.Equal(m.pre, world.Sha(p.Data)) {
		violate(w, m.R, "ack-accepted-without-own-commitment", map[string]string{"mut": a.Mut},
			fmt.Sprintf("commitment before the ack was %x, packet hashes to %x", m.pre, world.Sha(p.Data)))
		return
	}
	eName := provingChainAck(a.On.Name, p)
	e := w.Chain(eName)
	val, exists, ok := world.GTAt(e, a.PH, host.PacketAcknowledgementKey(p.SourceChain, p.DestinationChain, p.Sequence))
	if e == nil || !ok || !exists || !bytes.Equal(val, world.Sha(a.Ack)) {
		violate(w, m.R, "ack-accepted-without-recorded-ack", map[string]string{"mut": a.Mut, "role": role(a.On.Name, p)},
			fmt.Sprintf("%s accepted ack %q for %s but %s@%s holds %x", a.On.Name, a.Ack, key, eName, a.PH, val))
		return
	}
	if world.Now(a.On, host.PacketCommitmentKey(p.SourceChain, p.DestinationChain, p.Sequence)) != nil {
		violate(w, m.R, "commitment-survives-ack", map[string]string{"mut": a.Mut}, key)
	}
}

// ---------------------------------------------------------------- C13

// C13: an accepted receive / acknowledgement carries the port and relay chain the sender chose.
type C13 struct{ R *mon.Recorder }

func (m *C13) Before(w *world.World, a *world.Action) {}
func (m *C13) After(w *world.World, a *world.Action) {
	if (a.Kind != "recv" && a.Kind != "ack") || a.Packet == nil || a.Res.Space == "verif-build" {
		return
	}
	p := *a.Packet
	rec, ok := w.Packets[world.PKey{Src: p.SourceChain, Dst: p.DestinationChain, Seq: p.Sequence}]
	if !ok {
		return
	}
	o := rec.Orig
	field, edit := "", ""
	switch {
	case p.Port != o.Port:
		field, edit = "port", o.Port+"->"+p.Port
	case p.RelayChain != o.RelayChain && p.RelayChain == "":
		field, edit = "relay_chain", "removed"
	case p.RelayChain != o.RelayChain && o.RelayChain == "":
		field, edit = "relay_chain", "added"
	case p.RelayChain != o.RelayChain:
		field, edit = "relay_chain", "replaced"
	}
	if field == "" {
		if bytes.Equal(p.Data, o.Data) {
			m.R.Count("unaltered-"+a.Kind+"-"+okStr(a.Res.OK()), 1)
		}
		return
	}
	if !bytes.Equal(p.Data, o.Data) {
		return
	}
	rl := role(a.On.Name, o)
	m.R.Judge("altered/"+a.Kind+"/"+field+"/"+okStr(a.Res.OK()), edit, rl, rec.AckErr, logClass(a.Res.Log))
	m.R.Count("altered-"+field+"-"+okStr(a.Res.OK()), 1)
	if a.Res.OK() {
		stores := map[string]bool{}
		for _, kv := range a.Res.Diff {
			stores[kv.Store] = true
		}
		violate(w, m.R, "accepted-with-edited-field", map[string]string{"field": field, "edit": edit, "msg": a.Kind, "role": rl},
			fmt.Sprintf("%s accepted %s of %s with %s %s (stores changed: %v; commitment on source afterwards: %v)", a.On.Name, a.Kind, rec.Key, field, edit, stores,
				w.Chain(o.SourceChain) != nil && world.HasCommitment(w.Chain(o.SourceChain), rec.Key)))
		w.Stop = false // a known finding must not end the exploration of the matrix
		if m.R.Unlisted() > 0 {
			w.Stop = true
		}
	}
}

// ---------------------------------------------------------------- C19 (generic part)

// NoTrace: a failed transaction leaves the watched stores untouched.
type NoTrace struct {
	R          *mon.Recorder
	GasBuckets bool // count gas-limit aborts as distinct per 2000-gas bucket
}

func (m *NoTrace) Before(w *world.World, a *world.Action) {}
func (m *NoTrace) After(w *world.World, a *world.Action) {
	if a.Res.OK() || a.Exec != nil || a.Res.Space == "verif-build" {
		return
	}
	if m.GasBuckets && a.Mut == "gas-limit" {
		m.R.Judge("failed-tx/gas-abort/"+a.Note, a.Gas/2000, a.Res.GasUsed/2000)
	} else {
		m.R.Judge("failed-tx/"+a.Kind, a.Mut, logClass(a.Res.Log), a.Res.Space, a.Res.Code)
	}
	m.R.Count("failed-tx", 1)
	if len(a.Res.Diff) != 0 {
		violate(w, m.R, "failed-msg-left-trace", map[string]string{"kind": a.Kind, "mut": a.Mut},
			fmt.Sprintf("tx failed (%s) but %d keys changed, first %s %q", a.Res.Log, len(a.Res.Diff), a.Res.Diff[0].Store, a.Res.Diff[0].Key))
	}
}
