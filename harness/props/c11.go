package props

import (
	"bytes"
	"fmt"

	packettypes "github.com/bianjieai/tibc-go/modules/tibc/core/04-packet/types"
	host "github.com/bianjieai/tibc-go/modules/tibc/core/24-host"
	"github.com/bianjieai/tibc-go/modules/tibc/core/exported"

	"verif/model"
	"verif/mon"
	"verif/world"
)

// C11 watches relay chains: faithful forwarding iff whitelisted and the
// destination is known, error ack otherwise, acks passed back unchanged, no
// application logic and no token effects on the relay chain.
type C11 struct {
	R         *mon.Recorder
	Rules     map[string][]string // chain -> rules the scenario installed
	denied    map[world.PKey]bool
	preTokens string
	expectOK  bool
}

func (m *C11) tokenDigest(w *world.World, a *world.Action) string {
	b, s := world.MtSnapshot(a.On)
	return fmt.Sprintf("%v|%v|%v", world.NftSnapshot(a.On), b, s)
}

func (m *C11) Before(w *world.World, a *world.Action) {
	if m.denied == nil {
		m.denied = map[world.PKey]bool{}
	}
	m.preTokens = ""
	m.expectOK = false
	if (a.Kind != "recv" && a.Kind != "ack") || a.Packet == nil {
		return
	}
	p := *a.Packet
	if a.On.Name == p.RelayChain {
		m.preTokens = m.tokenDigest(w, a)
	}
	// an honest relay of an acknowledgement that the proving chain really recorded must be accepted on the relay chain and on the source
	if a.Kind == "ack" && a.Honest && a.From != nil && p.RelayChain != "" {
		k := world.PKey{Src: p.SourceChain, Dst: p.DestinationChain, Seq: p.Sequence}
		if world.HasCommitment(a.On, k) && bytes.Equal(world.Now(a.From, host.PacketAcknowledgementKey(k.Src, k.Dst, k.Seq)), world.Sha(a.Ack)) &&
			clientStatus(a.On, a.From.Name) == exported.Active && (a.On.Name != p.RelayChain || world.HasClient(a.On, p.SourceChain)) {
			m.expectOK = true
		}
	}
}

func (m *C11) After(w *world.World, a *world.Action) {
	// application callbacks on a relay chain for pass-through traffic
	if a.Res.OK() {
		for _, cb := range a.Callbacks {
			if cb.Packet.RelayChain != "" && cb.Chain == cb.Packet.RelayChain {
				m.R.Judge("callback-on-relay", cb.Kind, cb.Packet.Port)
				violate(w, m.R, "app-callback-on-relay-chain", map[string]string{"callback": cb.Kind, "port": cb.Packet.Port},
					fmt.Sprintf("%s ran the %s callback of port %s for %s>%s#%d passing through", cb.Chain, cb.Kind, cb.Packet.Port, cb.Packet.SourceChain, cb.Packet.DestinationChain, cb.Packet.Sequence))
			}
		}
	}
	if (a.Kind != "recv" && a.Kind != "ack") || a.Packet == nil || a.Res.Space == "verif-build" {
		return
	}
	p := *a.Packet
	k := world.PKey{Src: p.SourceChain, Dst: p.DestinationChain, Seq: p.Sequence}
	rec := w.Packets[k]
	onRelay := a.On.Name == p.RelayChain
	if m.expectOK {
		m.R.Judge("ack-pass-back/"+role(a.On.Name, p), p.Port, isErrAck(a.Ack), a.Res.OK())
		m.R.Count("acks-passed-back", 1)
		if isErrAck(a.Ack) {
			m.R.Count("error-acks-passed-back", 1)
		}
		if !a.Res.OK() {
			violate(w, m.R, "ack-cannot-pass-back", map[string]string{"role": role(a.On.Name, p), "port": p.Port, "error_ack": fmt.Sprint(isErrAck(a.Ack))},
				fmt.Sprintf("%s refused the honest acknowledgement of %s: %s", a.On.Name, k, a.Res.Log))
			return
		}
	}
	if !onRelay {
		// destination must never accept a packet its relay chain refused
		if a.Kind == "recv" && a.On.Name == p.DestinationChain && a.Res.OK() && m.denied[k] {
			violate(w, m.R, "destination-saw-denied-packet", map[string]string{"port": p.Port}, k.String())
		}
		return
	}
	// ---- on the relay chain
	if a.Res.OK() && m.preTokens != m.tokenDigest(w, a) {
		violate(w, m.R, "token-state-changed-on-relay-chain", map[string]string{"msg": a.Kind, "port": p.Port}, k.String())
		return
	}
	for _, kv := range a.Res.Diff {
		if kv.Store != "tibc" {
			violate(w, m.R, "relay-chain-touched-app-store", map[string]string{"msg": a.Kind, "store": kv.Store, "port": p.Port}, kv.Key)
			return
		}
	}
	if a.Kind == "ack" {
		if !a.Res.OK() {
			return
		}
		// stored for the next hop unchanged
		got := world.Now(a.On, host.PacketAcknowledgementKey(k.Src, k.Dst, k.Seq))
		dst := w.Chain(p.DestinationChain)
		m.R.Judge("ack-stored-on-relay", p.Port, isErrAck(a.Ack))
		if !bytes.Equal(got, world.Sha(a.Ack)) || (dst != nil && !bytes.Equal(got, world.Now(dst, host.PacketAcknowledgementKey(k.Src, k.Dst, k.Seq)))) {
			violate(w, m.R, "ack-altered-on-relay-chain", map[string]string{"port": p.Port}, fmt.Sprintf("relay stores %x, destination %x", got, world.Now(dst, host.PacketAcknowledgementKey(k.Src, k.Dst, k.Seq))))
		}
		return
	}
	// receive on the relay chain
	if !a.Honest || rec == nil || !bytes.Equal(p.Data, rec.Orig.Data) || p.Port != rec.Orig.Port {
		return
	}
	allowed := model.Authorised(m.Rules[a.On.Name], p.SourceChain, p.DestinationChain, p.Port)
	knows := world.HasClient(a.On, p.DestinationChain)
	m.R.Judge("relay-recv", allowed, knows, p.Port, a.Res.OK())
	ck := host.PacketCommitmentKey(k.Src, k.Dst, k.Seq)
	ak := host.PacketAcknowledgementKey(k.Src, k.Dst, k.Seq)
	if allowed && knows {
		m.R.Count("relay-forwarded", 1)
		if !a.Res.OK() {
			violate(w, m.R, "allowed-packet-not-forwarded", map[string]string{"port": p.Port}, a.Res.Log)
			return
		}
		if !bytes.Equal(world.Now(a.On, ck), world.Sha(rec.Orig.Data)) || world.Now(a.On, ak) != nil {
			violate(w, m.R, "allowed-packet-not-recommitted-unchanged", map[string]string{"port": p.Port}, k.String())
			return
		}
		announced := false
		for _, ev := range a.Res.Events {
			if ev.Type == packettypes.EventTypeSendPacket {
				q := world.PacketFromEvent(ev)
				if q.Sequence == p.Sequence && q.SourceChain == p.SourceChain && q.DestinationChain == p.DestinationChain && q.RelayChain == p.RelayChain && q.Port == p.Port && bytes.Equal(q.Data, p.Data) {
					announced = true
				}
			}
		}
		if !announced {
			violate(w, m.R, "forwarded-packet-not-announced-unchanged", map[string]string{"port": p.Port}, k.String())
		}
		return
	}
	// must be refused with a recorded error acknowledgement
	m.R.Count("relay-denied", 1)
	m.denied[k] = true
	why := "not-whitelisted"
	if allowed {
		why = "unknown-destination"
	}
	if !a.Res.OK() {
		violate(w, m.R, "denied-packet-not-answered-with-error-ack", map[string]string{"why": why, "port": p.Port},
			fmt.Sprintf("%s failed the transaction instead of recording an error acknowledgement: %s", a.On.Name, a.Res.Log))
		return
	}
	if world.Now(a.On, ck) != nil {
		violate(w, m.R, "denied-packet-forwarded", map[string]string{"why": why, "port": p.Port}, k.String())
		return
	}
	if world.Now(a.On, ak) == nil || rec.AckBytes == nil || !isErrAck(rec.AckBytes) {
		violate(w, m.R, "denied-packet-without-error-ack", map[string]string{"why": why, "port": p.Port}, k.String())
	}
}
