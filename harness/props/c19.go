package props

import (
	"fmt"
	"reflect"
	"strings"

	packettypes "github.com/bianjieai/tibc-go/modules/tibc/core/04-packet/types"
	host "github.com/bianjieai/tibc-go/modules/tibc/core/24-host"

	"verif/mon"
	"verif/world"
)

// ErrAck: a receive answered with an error acknowledgement leaves ownership,
// balances and supplies untouched and writes exactly receipt + ack (+ max-ack bookkeeping).
type ErrAck struct {
	R      *mon.Recorder
	preNft []world.NftHolding
	preBal []world.MtBal
	preSup map[[2]string]uint64
}

func (m *ErrAck) Before(w *world.World, a *world.Action) {
	if a.Kind != "recv" {
		return
	}
	m.preNft = world.NftSnapshot(a.On)
	m.preBal, m.preSup = world.MtSnapshot(a.On)
}

func isErrAck(b []byte) bool {
	var ack packettypes.Acknowledgement
	if ack.Unmarshal(b) != nil {
		return false
	}
	_, e := ack.Response.(*packettypes.Acknowledgement_Error)
	return e
}

func (m *ErrAck) After(w *world.World, a *world.Action) {
	if a.Kind != "recv" || !a.Res.OK() || a.Packet == nil {
		return
	}
	// the acknowledgement written in this step, if any
	var ackBytes []byte
	for _, ev := range a.Res.Events {
		if ev.Type == packettypes.EventTypeWriteAck {
			for _, at := range ev.Attributes {
				if at.Key == packettypes.AttributeKeyAck {
					ackBytes = []byte(at.Value)
				}
			}
		}
	}
	if ackBytes == nil || !isErrAck(ackBytes) {
		if ackBytes != nil {
			m.R.Count("success-ack-receives", 1)
		}
		return
	}
	p := *a.Packet
	var ack packettypes.Acknowledgement
	ack.Unmarshal(ackBytes)
	reason := logClass(ack.GetError())
	m.R.Judge("error-acked-receive", p.Port, role(a.On.Name, p), reason, a.Mut)
	m.R.Count("error-acked-receives", 1)
	postNft := world.NftSnapshot(a.On)
	postBal, postSup := world.MtSnapshot(a.On)
	if ch := diffNft(m.preNft, postNft); len(ch) != 0 {
		violate(w, m.R, "error-ack-changed-nft-ownership", map[string]string{"port": p.Port, "reason": reason}, fmt.Sprintf("%v", ch))
		return
	}
	if !reflect.DeepEqual(balMap(m.preBal), balMap(postBal)) || !reflect.DeepEqual(nonZero(m.preSup), nonZero(postSup)) {
		violate(w, m.R, "error-ack-changed-mt-state", map[string]string{"port": p.Port, "reason": reason},
			fmt.Sprintf("balances %v -> %v, supplies %v -> %v", m.preBal, postBal, m.preSup, postSup))
		return
	}
	allowed := map[string]bool{
		string(host.PacketReceiptKey(p.SourceChain, p.DestinationChain, p.Sequence)):         true,
		string(host.PacketAcknowledgementKey(p.SourceChain, p.DestinationChain, p.Sequence)): true,
		string(host.MaxAckSeqKey(p.SourceChain, p.DestinationChain)):                         true,
	}
	seen := 0
	for _, kv := range a.Res.Diff {
		if kv.Store != "tibc" {
			continue
		}
		if !allowed[kv.Key] {
			violate(w, m.R, "error-ack-wrote-other-packet-state", map[string]string{"port": p.Port}, kv.Key)
			return
		}
		if !strings.HasPrefix(kv.Key, "maxAckSeq/") {
			seen++
		}
	}
	if seen != 2 {
		violate(w, m.R, "error-ack-without-receipt-and-ack", map[string]string{"port": p.Port}, fmt.Sprintf("%d of receipt+ack written", seen))
	}
}

func balMap(b []world.MtBal) map[string]uint64 {
	m := map[string]uint64{}
	for _, x := range b {
		if x.Amount != 0 {
			m[x.Class+"/"+x.ID+"/"+x.Owner] = x.Amount
		}
	}
	return m
}

func nonZero(s map[[2]string]uint64) map[[2]string]uint64 {
	m := map[[2]string]uint64{}
	for k, v := range s {
		if v != 0 {
			m[k] = v
		}
	}
	return m
}
