package props

import (
	"bytes"
	"encoding/binary"
	"fmt"
	"strconv"
	"strings"

	mttransfer "github.com/bianjieai/tibc-go/modules/tibc/apps/mt_transfer/types"
	packettypes "github.com/bianjieai/tibc-go/modules/tibc/core/04-packet/types"
	host "github.com/bianjieai/tibc-go/modules/tibc/core/24-host"

	"verif/mon"
	"verif/vnet"
	"verif/world"
)

// ---------------------------------------------------------------- C09

// C09: gap-free sequences, one binding commitment, all-or-nothing sends.
type C09 struct {
	R       *mon.Recorder
	next    map[string]uint64 // chain|dst -> next expected sequence (model)
	preNft  []world.NftHolding
	preBal  []world.MtBal
	preSup  map[[2]string]uint64
	preNext map[string]uint64
}

func isSend(a *world.Action) bool { return strings.HasPrefix(a.Kind, "send-") }

func (m *C09) Before(w *world.World, a *world.Action) {
	if m.next == nil {
		m.next = map[string]uint64{}
	}
	if !isSend(a) {
		return
	}
	m.preNft = world.NftSnapshot(a.On)
	m.preBal, m.preSup = world.MtSnapshot(a.On)
}

func parseSeqKey(prefix, key string) (src, dst string, seq uint64, ok bool) {
	// <prefix>/<src>/<dst>/sequences/<n>
	parts := strings.Split(key, "/")
	if len(parts) != 5 || parts[0] != prefix || parts[3] != "sequences" {
		return
	}
	n, err := strconv.ParseUint(parts[4], 10, 64)
	if err != nil {
		return
	}
	return parts[1], parts[2], n, true
}

func (m *C09) After(w *world.World, a *world.Action) {
	on := a.On.Name
	// generic: counters and own-source commitments only move in successful sends
	for _, kv := range a.Res.Diff {
		if kv.Store != "tibc" {
			continue
		}
		if strings.HasPrefix(kv.Key, "nextSequenceSend/") {
			old := uint64(1)
			if len(kv.Old) == 8 {
				old = binary.BigEndian.Uint64(kv.Old)
			}
			nw := uint64(0)
			if len(kv.New) == 8 {
				nw = binary.BigEndian.Uint64(kv.New)
			}
			m.R.Judge("seq-counter-diff", a.Kind, old == 1)
			if !(isSend(a) && a.Res.OK()) || nw != old+1 {
				violate(w, m.R, "sequence-counter-moved-wrongly", map[string]string{"kind": a.Kind, "mut": a.Mut},
					fmt.Sprintf("%s: %d -> %d in a %s step (ok=%v)", kv.Key, old, nw, a.Kind, a.Res.OK()))
			}
		}
		if src, _, _, ok := parseSeqKey("commitments", kv.Key); ok && src == on && kv.Created() && !(isSend(a) && a.Res.OK()) {
			violate(w, m.R, "own-commitment-created-outside-send", map[string]string{"kind": a.Kind}, kv.Key)
		}
	}
	if !isSend(a) || a.Res.Space == "verif-build" {
		return
	}
	ok := a.Res.OK()
	relayed, dst := false, ""
	if a.Packet != nil {
		relayed, dst = a.Packet.RelayChain != "", a.Packet.DestinationChain
	}
	m.R.Judge("send/"+a.Kind+"/"+okStr(ok), a.Mut, logClass(a.Res.Log), a.On.Name, dst, relayed, world.NextSend(a.On, a.On.Name, dst) > 3)
	if !ok {
		m.R.Count("send-failed", 1)
		if len(a.Res.Diff) != 0 {
			violate(w, m.R, "failed-send-changed-state", map[string]string{"kind": a.Kind, "mut": a.Mut}, a.Res.Log)
		}
		return
	}
	m.R.Count("send-ok", 1)
	// exactly one send_packet event with source = this chain
	var sent []packettypes.Packet
	for _, ev := range a.Res.Events {
		if ev.Type == packettypes.EventTypeSendPacket {
			sent = append(sent, world.PacketFromEvent(ev))
		}
	}
	if len(sent) != 1 || sent[0].SourceChain != on {
		violate(w, m.R, "send-not-announced-once", map[string]string{"kind": a.Kind}, fmt.Sprintf("%d send_packet events", len(sent)))
		return
	}
	p := sent[0]
	hop := p.DestinationChain
	if p.RelayChain != "" {
		hop = p.RelayChain
	}
	if !world.HasClient(a.On, hop) {
		violate(w, m.R, "send-accepted-towards-unknown-chain", map[string]string{"kind": a.Kind, "relayed": fmt.Sprint(p.RelayChain != "")},
			fmt.Sprintf("%s has no client of the next hop %s", on, hop))
		return
	}
	pair := on + "|" + p.DestinationChain
	want := m.next[pair]
	if want == 0 {
		want = 1
	}
	if p.Sequence != want {
		violate(w, m.R, "sequence-gap-or-reuse", map[string]string{"kind": a.Kind}, fmt.Sprintf("pair %s: got sequence %d, expected %d", pair, p.Sequence, want))
		return
	}
	m.next[pair] = want + 1
	// tibc diff shape
	ck := string(host.PacketCommitmentKey(on, p.DestinationChain, p.Sequence))
	nk := string(host.NextSequenceSendKey(on, p.DestinationChain))
	seenC, seenN := false, false
	tokenDiff := 0
	for _, kv := range a.Res.Diff {
		switch kv.Store {
		case "tibc":
			switch kv.Key {
			case ck:
				seenC = kv.Created() && bytes.Equal(kv.New, world.Sha(p.Data))
			case nk:
				seenN = len(kv.New) == 8 && binary.BigEndian.Uint64(kv.New) == p.Sequence+1
			default:
				violate(w, m.R, "send-touched-other-tibc-key", map[string]string{"kind": a.Kind}, kv.Key)
				return
			}
		case "NFT":
			violate(w, m.R, "send-touched-trace-store", map[string]string{"kind": a.Kind}, kv.Key)
			return
		default:
			tokenDiff++
		}
	}
	if !seenC || !seenN {
		violate(w, m.R, "send-without-commitment-or-counter", map[string]string{"kind": a.Kind},
			fmt.Sprintf("commitment written correctly=%v counter advanced=%v", seenC, seenN))
		return
	}
	if !bytes.Equal(world.Now(a.On, []byte(ck)), world.Sha(p.Data)) {
		violate(w, m.R, "commitment-not-binding", map[string]string{"kind": a.Kind}, ck)
		return
	}
	switch a.Kind {
	case "send-mock":
		if tokenDiff != 0 {
			violate(w, m.R, "mock-send-touched-tokens", nil, "")
		}
	case "send-nft":
		post := world.NftSnapshot(a.On)
		changed := diffNft(m.preNft, post)
		if len(changed) != 1 {
			violate(w, m.R, "nft-send-moved-wrong-tokens", nil, fmt.Sprintf("%d NFTs changed: %v", len(changed), changed))
			return
		}
		c := changed[0]
		if !(c.after == "" || c.after == world.NftEscrow.String()) || c.before != a.Signer.Addr.String() {
			violate(w, m.R, "nft-send-not-lock-or-burn", nil, fmt.Sprintf("%+v", c))
		}
	case "send-mt":
		bal, sup := world.MtSnapshot(a.On)
		if len(a.Msgs) == 1 {
			if mm, ok := a.Msgs[0].(*mttransfer.MsgMtTransfer); ok && mm.Amount == 0 && len(mtDeltas(on, m.preBal, bal)) == 0 {
				m.R.Count("zero-amount-mt-sends", 1) // accepted by the sending side, moves nothing
				break
			}
		}
		if msg := checkMtSend(m.preBal, m.preSup, bal, sup, a.Signer.Addr.String()); msg != "" {
			violate(w, m.R, "mt-send-not-lock-or-burn", nil, msg)
		}
	}
}

type nftChange struct{ class, id, before, after string }

func diffNft(a, b []world.NftHolding) []nftChange {
	am := map[[2]string]string{}
	for _, h := range a {
		am[[2]string{h.Class, h.ID}] = h.Owner
	}
	var out []nftChange
	seen := map[[2]string]bool{}
	for _, h := range b {
		k := [2]string{h.Class, h.ID}
		seen[k] = true
		if am[k] != h.Owner {
			out = append(out, nftChange{h.Class, h.ID, am[k], h.Owner})
		}
	}
	for _, h := range a {
		k := [2]string{h.Class, h.ID}
		if !seen[k] {
			out = append(out, nftChange{h.Class, h.ID, h.Owner, ""})
		}
	}
	return out
}

func checkMtSend(preB []world.MtBal, preS map[[2]string]uint64, postB []world.MtBal, postS map[[2]string]uint64, sender string) string {
	type bk struct{ class, id, owner string }
	pm := map[bk]uint64{}
	for _, b := range preB {
		pm[bk{b.Class, b.ID, b.Owner}] = b.Amount
	}
	qm := map[bk]uint64{}
	for _, b := range postB {
		qm[bk{b.Class, b.ID, b.Owner}] = b.Amount
	}
	var dec, inc []string
	var decAmt, incAmt uint64
	var tok [2]string
	for k, v := range pm {
		if qm[k] < v {
			dec = append(dec, k.owner)
			decAmt = v - qm[k]
			tok = [2]string{k.class, k.id}
		} else if qm[k] > v {
			inc = append(inc, k.owner)
			incAmt = qm[k] - v
		}
	}
	for k, v := range qm {
		if _, ok := pm[k]; !ok && v > 0 {
			inc = append(inc, k.owner)
			incAmt = v
		}
	}
	if len(dec) != 1 || dec[0] != sender {
		return fmt.Sprintf("balances decreased for %v (sender %s)", dec, sender)
	}
	supDelta := int64(0)
	for k, v := range preS {
		if postS[k] != v {
			if k != tok || postS[k] > v {
				return fmt.Sprintf("supply of %v changed %d -> %d", k, v, postS[k])
			}
			supDelta = int64(v - postS[k])
		}
	}
	switch {
	case len(inc) == 1 && inc[0] == world.MtEscrow.String() && incAmt == decAmt && supDelta == 0:
		return "" // lock
	case len(inc) == 0 && uint64(supDelta) == decAmt:
		return "" // burn
	}
	return fmt.Sprintf("sender -%d, increased %v +%d, supply -%d", decAmt, inc, incAmt, supDelta)
}

// ---------------------------------------------------------------- C10

// C10: cleanup only of acknowledged history, clean point monotonic, cleaned sequences refused for good.
type C10 struct {
	R       *mon.Recorder
	preCP   uint64
	preMA   uint64
	preLive []uint64 // sequences <= N with a commitment before the clean
	preCPOn uint64   // clean point of (src,dst) on a.On before a recv/ack
}

func cleanPairOn(a *world.Action) (string, string) {
	src := a.Clean.SourceChain
	if a.Kind == "clean" {
		src = a.On.Name
	}
	return src, a.Clean.DestinationChain
}

func (m *C10) Before(w *world.World, a *world.Action) {
	switch a.Kind {
	case "clean", "recvclean":
		src, dst := cleanPairOn(a)
		m.preCP = world.CleanPoint(a.On, src, dst)
		m.preMA = world.MaxAck(a.On, src, dst)
		m.preLive = nil
		n := a.Clean.Sequence
		lim := n
		if lim > m.preMA+64 {
			lim = m.preMA + 64
		}
		for q := uint64(1); q <= lim; q++ {
			if world.HasCommitment(a.On, world.PKey{Src: src, Dst: dst, Seq: q}) {
				m.preLive = append(m.preLive, q)
			}
		}
	case "recv", "ack":
		if a.Packet != nil {
			m.preCPOn = world.CleanPoint(a.On, a.Packet.SourceChain, a.Packet.DestinationChain)
		}
	}
}

func (m *C10) After(w *world.World, a *world.Action) {
	// generic: clean point never decreases
	for _, kv := range a.Res.Diff {
		if kv.Store == "tibc" && strings.HasPrefix(kv.Key, "clean/") {
			old, nw := uint64(0), uint64(0)
			if len(kv.Old) == 8 {
				old = binary.BigEndian.Uint64(kv.Old)
			}
			if len(kv.New) == 8 {
				nw = binary.BigEndian.Uint64(kv.New)
			}
			m.R.Judge("clean-point-diff", a.Kind, old == 0)
			if nw <= old || kv.New == nil || (a.Kind != "clean" && a.Kind != "recvclean") {
				violate(w, m.R, "clean-point-not-increasing", map[string]string{"kind": a.Kind, "mut": a.Mut}, fmt.Sprintf("%s: %d -> %d", kv.Key, old, nw))
			}
		}
	}
	if (a.Kind == "recv" || a.Kind == "ack") && a.Packet != nil && a.Res.Space != "verif-build" {
		below := a.Packet.Sequence <= m.preCPOn
		if below {
			m.R.Judge("msg-at-or-below-clean-point/"+a.Kind+"/"+okStr(a.Res.OK()), a.Mut, role(a.On.Name, *a.Packet))
			m.R.Count("msgs-at-or-below-clean-point", 1)
			if a.Res.OK() {
				violate(w, m.R, "cleaned-sequence-accepted", map[string]string{"kind": a.Kind, "mut": a.Mut},
					fmt.Sprintf("%s accepted %s of sequence %d <= clean point %d", a.On.Name, a.Kind, a.Packet.Sequence, m.preCPOn))
			}
		}
	}
	if (a.Kind != "clean" && a.Kind != "recvclean") || a.Clean == nil || a.Res.Space == "verif-build" {
		return
	}
	src, dst := cleanPairOn(a)
	n := a.Clean.Sequence
	ok := a.Res.OK()
	rel := "mid"
	switch {
	case n <= m.preCP:
		rel = "<=cp"
	case n > m.preMA:
		rel = ">maxack"
	case len(m.preLive) > 0:
		rel = "live-below"
	}
	m.R.Judge(a.Kind+"/"+okStr(ok)+"/"+rel, a.Mut, m.preCP == 0, a.Clean.RelayChain != "", logClass(a.Res.Log))
	if !ok {
		m.R.Count(a.Kind+"-rejected", 1)
		if len(a.Res.Diff) != 0 {
			violate(w, m.R, "rejected-clean-changed-state", map[string]string{"kind": a.Kind, "mut": a.Mut}, a.Res.Log)
		}
		return
	}
	m.R.Count(a.Kind+"-accepted", 1)
	if n <= m.preCP || n > m.preMA || len(m.preLive) > 0 {
		violate(w, m.R, "clean-accepted-out-of-range", map[string]string{"kind": a.Kind, "rel": rel, "mut": a.Mut},
			fmt.Sprintf("N=%d clean point=%d max acked=%d unacknowledged<=N: %v", n, m.preCP, m.preMA, m.preLive))
		return
	}
	if a.Kind == "recvclean" {
		eName := a.Clean.SourceChain
		if a.Clean.DestinationChain == a.On.Name && a.Clean.RelayChain != "" {
			eName = a.Clean.RelayChain
		}
		e := w.Chain(eName)
		val, exists, gok := world.GTAt(e, a.PH, host.CleanPacketCommitmentKey(src, dst))
		if e == nil || !gok || !exists || !bytes.Equal(val, be64(n)) {
			violate(w, m.R, "recvclean-accepted-without-proof", map[string]string{"mut": a.Mut},
				fmt.Sprintf("%s accepted clean %s>%s@%d but %s@%s holds clean point %x", a.On.Name, src, dst, n, eName, a.PH, val))
			return
		}
	}
	// diff: only the clean point and receipts / acks of the pair in (old, N]
	for _, kv := range a.Res.Diff {
		if kv.Store != "tibc" {
			violate(w, m.R, "clean-touched-other-store", map[string]string{"kind": a.Kind}, kv.Store+" "+kv.Key)
			return
		}
		if kv.Key == string(host.CleanPacketCommitmentKey(src, dst)) {
			if !bytes.Equal(kv.New, be64(n)) {
				violate(w, m.R, "clean-point-wrong-value", map[string]string{"kind": a.Kind}, fmt.Sprintf("%x", kv.New))
			}
			continue
		}
		okKey := false
		for _, pre := range []string{"receipts", "acks"} {
			if s, d, q, pok := parseSeqKey(pre, kv.Key); pok && s == src && d == dst && q > m.preCP && q <= n && kv.Deleted() {
				okKey = true
			}
		}
		if !okKey {
			violate(w, m.R, "clean-removed-or-wrote-something-else", map[string]string{"kind": a.Kind, "mut": a.Mut}, kv.Key)
			return
		}
	}
	if a.Kind == "recvclean" {
		// everything up to N is gone
		for q := m.preCP + 1; q <= n && q <= m.preCP+200; q++ {
			k := world.PKey{Src: src, Dst: dst, Seq: q}
			if world.HasReceipt(a.On, k) || world.HasAck(a.On, k) {
				violate(w, m.R, "clean-left-receipt-or-ack", map[string]string{"kind": a.Kind}, k.String())
				return
			}
		}
	}
	if world.CleanPoint(a.On, src, dst) != n {
		violate(w, m.R, "clean-point-not-recorded", map[string]string{"kind": a.Kind}, "")
	}
}

var _ = vnet.DefaultGas
