package props

import (
	"fmt"
	"sort"

	packettypes "github.com/bianjieai/tibc-go/modules/tibc/core/04-packet/types"

	"verif/mon"
	"verif/vnet"
	"verif/world"
)

// ---------------------------------------------------------------- C04

type nftRep struct{ Chain, Class, ID string }

func (r nftRep) String() string { return r.Chain + ":" + r.Class + "/" + r.ID }

type nftUnit struct {
	id      int
	origin  nftRep
	held    *nftRep // user-held representative (nil while in flight / burned)
	flight  *world.PKey
	fromRep nftRep // representative that was locked / burned by the send in flight
	locked  bool   // the send in flight locked (true) or burned (false) fromRep
	burned  bool
	escrow  []nftRep // chain of custody: escrowed representatives, oldest first
}

// C04 keeps a lineage ledger of every natively minted NFT, built only from
// observed ownership changes, and audits the real chains against it after every step.
type C04 struct {
	R       *mon.Recorder
	units   []*nftUnit
	rep     map[nftRep]*nftUnit // user-held representative -> unit
	esc     map[nftRep]*nftUnit // escrowed token -> unit
	flights map[world.PKey]*nftUnit
	pre     []world.NftHolding
	audits  int
}

func (m *C04) init() {
	if m.rep == nil {
		m.rep, m.esc, m.flights = map[nftRep]*nftUnit{}, map[nftRep]*nftUnit{}, map[world.PKey]*nftUnit{}
	}
}

func (m *C04) Before(w *world.World, a *world.Action) {
	m.init()
	m.pre = world.NftSnapshot(a.On)
}

func sentPacket(a *world.Action) *packettypes.Packet {
	for _, ev := range a.Res.Events {
		if ev.Type == packettypes.EventTypeSendPacket {
			p := world.PacketFromEvent(ev)
			if p.SourceChain == a.On.Name {
				return &p
			}
		}
	}
	return nil
}

func ackOf(a *world.Action) []byte {
	for _, ev := range a.Res.Events {
		if ev.Type == packettypes.EventTypeWriteAck {
			for _, at := range ev.Attributes {
				if at.Key == packettypes.AttributeKeyAck {
					return []byte(at.Value)
				}
			}
		}
	}
	return nil
}

func (m *C04) bad(w *world.World, kind string, attrs map[string]string, detail string) {
	violate(w, m.R, kind, attrs, detail)
}

func (m *C04) After(w *world.World, a *world.Action) {
	if !a.Res.OK() {
		return // failed steps change nothing (C19)
	}
	esc := world.NftEscrow.String()
	on := a.On.Name
	post := world.NftSnapshot(a.On)
	ch := diffNft(m.pre, post)
	sort.Slice(ch, func(i, j int) bool { return ch[i].class+ch[i].id < ch[j].class+ch[j].id })
	classAttr := func(c string) string {
		if world.IsVoucherClass(c) {
			return "voucher"
		}
		if len(c) > 4 && c[:4] == "nft/" {
			return "native-path-like"
		}
		return "native"
	}
	switch {
	case a.Kind == "user-nft-mint":
		for _, c := range ch {
			if world.IsVoucherClass(c.class) {
				m.bad(w, "voucher-minted-without-delivered-packet", map[string]string{"by": "user-mint"}, fmt.Sprintf("a user minted %+v straight into a voucher class", c))
				return
			}
			if c.before != "" || c.after == "" || c.after == esc {
				m.bad(w, "unexpected-nft-change", map[string]string{"step": a.Kind}, fmt.Sprintf("%+v", c))
				return
			}
			r := nftRep{on, c.class, c.id}
			u := &nftUnit{id: len(m.units), origin: r, held: &r}
			m.units = append(m.units, u)
			m.rep[r] = u
			m.R.Count("native-mints", 1)
		}
	case a.Kind == "user-nft-transfer":
		for _, c := range ch {
			if c.before == "" || c.after == "" || c.before == esc || c.after == esc {
				m.bad(w, "unexpected-nft-change", map[string]string{"step": a.Kind}, fmt.Sprintf("%+v", c))
				return
			}
		}
	case a.Kind == "user-nft-burn":
		for _, c := range ch {
			r := nftRep{on, c.class, c.id}
			u := m.rep[r]
			if c.after != "" || u == nil {
				m.bad(w, "unexpected-nft-change", map[string]string{"step": a.Kind}, fmt.Sprintf("%+v", c))
				return
			}
			u.burned, u.held = true, nil
			delete(m.rep, r)
			m.R.Count("holder-burns", 1)
		}
	case a.Kind == "send-nft":
		p := sentPacket(a)
		if p == nil || len(ch) != 1 {
			m.bad(w, "send-without-single-token-move", nil, fmt.Sprintf("%d tokens changed", len(ch)))
			return
		}
		c := ch[0]
		r := nftRep{on, c.class, c.id}
		u := m.rep[r]
		if u == nil || (c.after != "" && c.after != esc) {
			m.bad(w, "send-moved-unaccounted-token", nil, fmt.Sprintf("%+v", c))
			return
		}
		k := world.PKey{Src: p.SourceChain, Dst: p.DestinationChain, Seq: p.Sequence}
		delete(m.rep, r)
		u.held, u.flight, u.fromRep, u.locked = nil, &k, r, c.after == esc
		if u.locked {
			u.escrow = append(u.escrow, r)
			m.esc[r] = u
		}
		m.flights[k] = u
		m.R.Judge("nft-send", u.locked, classAttr(c.class), len(u.escrow), p.RelayChain != "")
		m.R.Count("nft-sends", 1)
	case a.Kind == "recv" && a.Packet != nil:
		k := world.PKey{Src: a.Packet.SourceChain, Dst: a.Packet.DestinationChain, Seq: a.Packet.Sequence}
		u := m.flights[k]
		ack := ackOf(a)
		delivered := on == a.Packet.DestinationChain && ack != nil && !isErrAck(ack) && a.Packet.Port == "NFT"
		if len(ch) == 0 {
			if delivered && u != nil {
				m.bad(w, "delivered-nft-packet-without-token", nil, k.String())
			}
			return
		}
		if !delivered || u == nil || len(ch) != 1 {
			m.bad(w, "nft-appeared-or-moved-without-delivered-packet", map[string]string{"class": classAttr(ch[0].class)},
				fmt.Sprintf("receive of %s (delivered=%v, in flight=%v) changed %+v", k, delivered, u != nil, ch))
			return
		}
		c := ch[0]
		r := nftRep{on, c.class, c.id}
		switch {
		case c.before == "" && c.after != "" && c.after != esc:
			// voucher minted against the delivered packet
			if !world.IsVoucherClass(c.class) {
				m.bad(w, "non-voucher-minted-on-receive", nil, fmt.Sprintf("%+v", c))
				return
			}
			m.R.Judge("nft-recv-mint", len(u.escrow), u.locked)
		case c.before == esc && c.after != "" && c.after != esc:
			// release from escrow: only the escrowed token of the very unit that came back
			owner := m.esc[r]
			m.R.Judge("nft-recv-unlock", len(u.escrow), classAttr(u.fromRep.Class))
			if owner != u {
				m.bad(w, "escrow-released-to-wrong-claimant", map[string]string{"sent_class": classAttr(u.fromRep.Class), "origin_class": classAttr(u.origin.Class)},
					fmt.Sprintf("packet %s carried NFT unit #%d (minted as %s, sent as %s) but released escrowed token %s which belongs to unit %v",
						k, u.id, u.origin, u.fromRep, r, unitName(owner)))
				return
			}
			delete(m.esc, r)
			u.escrow = u.escrow[:len(u.escrow)-1]
		default:
			m.bad(w, "unexpected-nft-change", map[string]string{"step": "recv"}, fmt.Sprintf("%+v", c))
			return
		}
		u.held, u.flight = &r, nil
		m.rep[r] = u
		delete(m.flights, k)
		m.R.Count("nft-deliveries", 1)
	case a.Kind == "ack" && a.Packet != nil:
		k := world.PKey{Src: a.Packet.SourceChain, Dst: a.Packet.DestinationChain, Seq: a.Packet.Sequence}
		u := m.flights[k]
		if len(ch) == 0 {
			return
		}
		if u == nil || !isErrAck(a.Ack) || on != a.Packet.SourceChain || len(ch) != 1 {
			m.bad(w, "nft-appeared-or-moved-without-delivered-packet", map[string]string{"class": classAttr(ch[0].class)},
				fmt.Sprintf("acknowledgement of %s changed %+v", k, ch))
			return
		}
		c := ch[0]
		r := nftRep{on, c.class, c.id}
		if r != u.fromRep || c.after == "" || c.after == esc {
			m.bad(w, "refund-of-wrong-token", map[string]string{"sent_class": classAttr(u.fromRep.Class), "origin_class": classAttr(u.origin.Class)}, fmt.Sprintf("sent %s, refunded %+v", u.fromRep, c))
			return
		}
		if u.locked {
			delete(m.esc, r)
			u.escrow = u.escrow[:len(u.escrow)-1]
		}
		u.held, u.flight = &r, nil
		m.rep[r] = u
		delete(m.flights, k)
		m.R.Judge("nft-refund", u.locked)
		m.R.Count("nft-refunds", 1)
	default:
		if len(ch) != 0 {
			m.bad(w, "unexpected-nft-change", map[string]string{"step": a.Kind}, fmt.Sprintf("%+v", ch))
			return
		}
	}
	m.audit(w)
}

func unitName(u *nftUnit) string {
	if u == nil {
		return "<none>"
	}
	return fmt.Sprintf("#%d (%s)", u.id, u.origin)
}

// audit compares the ledger with the real ownership tables of all chains.
func (m *C04) audit(w *world.World) {
	esc := world.NftEscrow.String()
	m.audits++
	seenRep := map[nftRep]bool{}
	for _, c := range w.Net.Chains {
		for _, h := range world.NftSnapshot(c) {
			r := nftRep{c.Name, h.Class, h.ID}
			if h.Owner == esc {
				if m.esc[r] == nil {
					violate(w, m.R, "unaccounted-escrowed-nft", nil, r.String())
					return
				}
				continue
			}
			seenRep[r] = true
			if m.rep[r] == nil {
				violate(w, m.R, "nft-duplicated-or-forged", map[string]string{"voucher": fmt.Sprint(world.IsVoucherClass(h.Class))},
					fmt.Sprintf("%s is held by %s but represents no natively minted, unburned NFT", r, h.Owner))
				return
			}
		}
	}
	for _, u := range m.units {
		n := 0
		if u.held != nil {
			if !seenRep[*u.held] {
				violate(w, m.R, "nft-lost", nil, fmt.Sprintf("unit %s should be held as %s", unitName(u), u.held))
				return
			}
			n++
		}
		if u.flight != nil {
			n++
		}
		if !u.burned && n != 1 {
			violate(w, m.R, "nft-holder-count", nil, fmt.Sprintf("unit %s has %d holders", unitName(u), n))
			return
		}
	}
	m.R.Judge("audit", len(m.units), len(m.flights), len(m.esc))
}

var _ = vnet.DefaultGas
