package props

import (
	"fmt"
	"math/big"

	"verif/mon"
	"verif/world"
)

type mtTok struct{ Chain, Class, ID string }

func (t mtTok) String() string { return t.Chain + ":" + t.Class + "/" + t.ID }

type mtEdge struct {
	parent, child mtTok
	pending       *big.Int // units in flight between parent and child (either direction)
	dead          *big.Int // voucher units destroyed by their holders (not by the transfer module)
}

type mtFlight struct {
	edge   *mtEdge
	amount uint64
	away   bool
	from   mtTok
}

// C05 checks, after every step and on the real balances of all chains:
//
//	supply(t) = sum of balances(t)                                 for every token t
//	escrow(parent) = sum over children (supply(child) + pending + dead)  for every escrowed token
//	sum over representatives (supply - escrow) + pending = natively minted - burned by holders
type C05 struct {
	R        *mon.Recorder
	edges    map[[2]mtTok]*mtEdge
	children map[mtTok][]*mtEdge
	parentOf map[mtTok]*mtEdge
	flights  map[world.PKey]*mtFlight
	native   map[mtTok]*big.Int // native supply expected (minted - burned by holders)
	preBal   []world.MtBal
	preSup   map[[2]string]uint64
}

func (m *C05) init() {
	if m.edges == nil {
		m.edges, m.children, m.parentOf = map[[2]mtTok]*mtEdge{}, map[mtTok][]*mtEdge{}, map[mtTok]*mtEdge{}
		m.flights, m.native = map[world.PKey]*mtFlight{}, map[mtTok]*big.Int{}
	}
}

func (m *C05) Before(w *world.World, a *world.Action) {
	m.init()
	m.preBal, m.preSup = world.MtSnapshot(a.On)
}

func u64(n uint64) *big.Int { return new(big.Int).SetUint64(n) }

type mtDelta struct {
	tok   mtTok
	owner string
	delta *big.Int
}

func mtDeltas(chain string, pre, post []world.MtBal) []mtDelta {
	type k struct{ c, i, o string }
	pm, qm := map[k]uint64{}, map[k]uint64{}
	for _, b := range pre {
		pm[k{b.Class, b.ID, b.Owner}] = b.Amount
	}
	for _, b := range post {
		qm[k{b.Class, b.ID, b.Owner}] = b.Amount
	}
	var out []mtDelta
	seen := map[k]bool{}
	for kk, v := range pm {
		seen[kk] = true
		if qm[kk] != v {
			out = append(out, mtDelta{mtTok{chain, kk.c, kk.i}, kk.o, new(big.Int).Sub(u64(qm[kk]), u64(v))})
		}
	}
	for kk, v := range qm {
		if !seen[kk] && v != 0 {
			out = append(out, mtDelta{mtTok{chain, kk.c, kk.i}, kk.o, u64(v)})
		}
	}
	return out
}

func (m *C05) edge(parent, child mtTok) *mtEdge {
	k := [2]mtTok{parent, child}
	e := m.edges[k]
	if e == nil {
		e = &mtEdge{parent: parent, child: child, pending: new(big.Int), dead: new(big.Int)}
		m.edges[k] = e
		m.children[parent] = append(m.children[parent], e)
		m.parentOf[child] = e
	}
	return e
}

func (m *C05) After(w *world.World, a *world.Action) {
	if !a.Res.OK() {
		return
	}
	on := a.On.Name
	esc := world.MtEscrow.String()
	postBal, postSup := world.MtSnapshot(a.On)
	ds := mtDeltas(on, m.preBal, postBal)
	supDelta := func(t mtTok) *big.Int {
		return new(big.Int).Sub(u64(postSup[[2]string{t.Class, t.ID}]), u64(m.preSup[[2]string{t.Class, t.ID}]))
	}
	switch {
	case a.Kind == "user-mt-mint":
		for _, d := range ds {
			if d.delta.Sign() > 0 && world.IsVoucherClass(d.tok.Class) {
				violate(w, m.R, "voucher-units-minted-without-delivered-packet", map[string]string{"by": "user-mint"}, fmt.Sprintf("%v", d))
				return
			}
			if d.delta.Sign() > 0 && !world.IsVoucherClass(d.tok.Class) {
				if m.native[d.tok] == nil {
					m.native[d.tok] = new(big.Int)
				}
				m.native[d.tok].Add(m.native[d.tok], d.delta)
				m.R.Count("mt-native-mints", 1)
			}
		}
	case a.Kind == "user-mt-burn":
		for _, d := range ds {
			if d.delta.Sign() < 0 {
				amt := new(big.Int).Neg(d.delta)
				if e := m.parentOf[d.tok]; e != nil {
					e.dead.Add(e.dead, amt)
				} else if m.native[d.tok] != nil {
					m.native[d.tok].Sub(m.native[d.tok], amt)
				}
				m.R.Count("mt-holder-burns", 1)
			}
		}
	case a.Kind == "send-mt":
		p := sentPacket(a)
		if p == nil {
			violate(w, m.R, "mt-send-without-packet", nil, "")
			return
		}
		var tok mtTok
		var amt *big.Int
		for _, d := range ds {
			if d.delta.Sign() < 0 && d.owner != esc {
				tok, amt = d.tok, new(big.Int).Neg(d.delta)
			}
		}
		if amt == nil {
			// a transfer of amount 0 is accepted by the sending side and moves nothing
			if len(ds) != 0 {
				violate(w, m.R, "mt-send-without-debit", nil, fmt.Sprintf("%v", ds))
				return
			}
			m.R.Count("mt-zero-amount-sends", 1)
			break
		}
		if !amt.IsUint64() {
			violate(w, m.R, "mt-send-without-debit", nil, fmt.Sprintf("%v", ds))
			return
		}
		k := world.PKey{Src: p.SourceChain, Dst: p.DestinationChain, Seq: p.Sequence}
		locked := supDelta(tok).Sign() == 0
		f := &mtFlight{amount: amt.Uint64(), away: locked, from: tok}
		if !locked {
			// burn of a voucher travelling back: the edge towards its parent
			f.edge = m.parentOf[tok]
			if f.edge == nil {
				violate(w, m.R, "mt-burned-on-send-without-lineage", nil, tok.String())
				return
			}
			f.edge.pending.Add(f.edge.pending, amt)
		}
		m.flights[k] = f
		m.R.Judge("mt-send", locked, amt.BitLen(), p.RelayChain != "")
		m.R.Count("mt-sends", 1)
	case a.Kind == "recv" && a.Packet != nil && len(ds) > 0:
		k := world.PKey{Src: a.Packet.SourceChain, Dst: a.Packet.DestinationChain, Seq: a.Packet.Sequence}
		f := m.flights[k]
		ack := ackOf(a)
		if f == nil || ack == nil || isErrAck(ack) || on != a.Packet.DestinationChain {
			violate(w, m.R, "mt-units-moved-without-delivered-packet", nil, fmt.Sprintf("receive of %s changed %v", k, ds))
			return
		}
		var tok mtTok
		for _, d := range ds {
			if d.delta.Sign() > 0 && d.owner != esc {
				tok = d.tok
			}
		}
		if f.away {
			f.edge = m.edge(f.from, tok)
			// the lock happened at send time; it only becomes an edge amount now
		} else {
			f.edge.pending.Sub(f.edge.pending, u64(f.amount))
		}
		delete(m.flights, k)
		m.R.Judge("mt-recv", f.away, u64(f.amount).BitLen())
		m.R.Count("mt-deliveries", 1)
	case a.Kind == "ack" && a.Packet != nil && len(ds) > 0:
		k := world.PKey{Src: a.Packet.SourceChain, Dst: a.Packet.DestinationChain, Seq: a.Packet.Sequence}
		f := m.flights[k]
		if f == nil || !isErrAck(a.Ack) || on != a.Packet.SourceChain {
			violate(w, m.R, "mt-units-moved-without-delivered-packet", nil, fmt.Sprintf("acknowledgement of %s changed %v", k, ds))
			return
		}
		if !f.away {
			f.edge.pending.Sub(f.edge.pending, u64(f.amount))
		}
		delete(m.flights, k)
		m.R.Judge("mt-refund", f.away, u64(f.amount).BitLen())
		m.R.Count("mt-refunds", 1)
	case a.Kind == "user-mt-transfer" || a.Kind == "user-mt-issue":
	default:
		if len(ds) != 0 {
			violate(w, m.R, "unexpected-mt-change", map[string]string{"step": a.Kind}, fmt.Sprintf("%v", ds))
			return
		}
	}
	m.audit(w)
}

func (m *C05) audit(w *world.World) {
	esc := world.MtEscrow.String()
	supply := map[mtTok]*big.Int{}
	escrow := map[mtTok]*big.Int{}
	for _, c := range w.Net.Chains {
		bals, sups := world.MtSnapshot(c)
		sum := map[mtTok]*big.Int{}
		for _, b := range bals {
			t := mtTok{c.Name, b.Class, b.ID}
			if sum[t] == nil {
				sum[t] = new(big.Int)
			}
			sum[t].Add(sum[t], u64(b.Amount))
			if b.Owner == esc {
				escrow[t] = u64(b.Amount)
			}
		}
		for k, s := range sups {
			t := mtTok{c.Name, k[0], k[1]}
			supply[t] = u64(s)
			have := sum[t]
			if have == nil {
				have = new(big.Int)
			}
			if have.Cmp(u64(s)) != 0 {
				violate(w, m.R, "mt-supply-differs-from-balances", nil, fmt.Sprintf("%s: supply %d, balances sum %s", t, s, have))
				return
			}
		}
		for t, have := range sum {
			if supply[t] == nil && have.Sign() != 0 {
				violate(w, m.R, "mt-balance-without-supply", nil, t.String())
				return
			}
		}
	}
	// away packets in flight: locked on the sender, not yet an edge
	pendingAway := map[mtTok]*big.Int{}
	for _, f := range m.flights {
		if f.away {
			if pendingAway[f.from] == nil {
				pendingAway[f.from] = new(big.Int)
			}
			pendingAway[f.from].Add(pendingAway[f.from], u64(f.amount))
		}
	}
	toks := map[mtTok]bool{}
	for t := range escrow {
		toks[t] = true
	}
	for t := range m.children {
		toks[t] = true
	}
	for t := range pendingAway {
		toks[t] = true
	}
	for t := range toks {
		want := new(big.Int)
		if pendingAway[t] != nil {
			want.Add(want, pendingAway[t])
		}
		for _, e := range m.children[t] {
			if s := supply[e.child]; s != nil {
				want.Add(want, s)
			}
			want.Add(want, e.pending)
			want.Add(want, e.dead)
		}
		have := escrow[t]
		if have == nil {
			have = new(big.Int)
		}
		m.R.Judge("mt-escrow-equation", have.BitLen(), len(m.children[t]), len(m.flights))
		if have.Cmp(want) != 0 {
			violate(w, m.R, "mt-escrow-differs-from-vouchers-plus-in-flight", nil,
				fmt.Sprintf("%s: escrow %s, vouchers in circulation + in flight %s", t, have, want))
			return
		}
	}
	// global: user-held units over all representatives + in flight = natively minted
	for nt, minted := range m.native {
		total := new(big.Int)
		var walk func(t mtTok)
		walk = func(t mtTok) {
			s, e := supply[t], escrow[t]
			if s != nil {
				total.Add(total, s)
			}
			if e != nil {
				total.Sub(total, e)
			}
			if pendingAway[t] != nil {
				total.Add(total, pendingAway[t])
			}
			for _, ed := range m.children[t] {
				total.Add(total, ed.pending)
				total.Add(total, ed.dead)
				walk(ed.child)
			}
		}
		walk(nt)
		m.R.Judge("mt-global-equation", minted.BitLen())
		if total.Cmp(minted) != 0 {
			violate(w, m.R, "mt-units-created-or-destroyed", nil, fmt.Sprintf("%s: minted %s, accounted %s", nt, minted, total))
			return
		}
	}
}
