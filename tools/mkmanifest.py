#!/usr/bin/env python3
"""Regenerates /verif/MANIFEST.json from the table below (claimed checks + not_applicable)."""
import json, os
ROOT = os.path.dirname(os.path.dirname(os.path.abspath(__file__)))
PKT = "runtime monitoring: ground-truth oracle over recorded histories of real SimApp chains under an adversarial relayer"
CHECKS = {
 "C01": ("exploration", "4/C01", PKT + " (accept => the proving chain's real store holds the commitment at the proof height; reject => empty KV diff)",
         "Every MsgRecvPacket delivered in seeded multi-chain histories (honest relays, ~35 mutation classes of fields/proof/height/chain/signer, replays) is judged against the proving chain's real IAVL store; held = no accepted receive without a genuine commitment and no rejected receive with a state change, on the histories explored.",
         "Trusts the harness's own chain driver (vnet), IAVL versioned reads as ground truth and the SDK's tx rollback; soundness is against the listed mutation classes, not cryptographic forgery."),
 "C02": ("exploration", "4/C02", "runtime monitoring: exactly-once counter over hook-reported application callbacks + bounded-progress oracle for honest fresh relays + porcupine linearizability check of concurrent-relayer histories (race detector in the thorough tier)",
         "Counts, over whole histories with replays (verbatim and re-proven, before/after ack and clean), how often the destination application callback and the packet-layer accept a given (chain,src,dst,seq); and asserts that an honest relay whose preconditions the harness established itself is accepted. Half of the histories are clean-heavy with replay bursts right after every accepted receive-clean. 12 (thorough 300) runs with 3-5 relayer goroutines racing overlapping receives into one block producer (several txs per block) are recorded as call/return histories and checked per packet with porcupine against first-succeeds / rest-fail; the thorough tier repeats that workload under the Go race detector.",
         "Hook H1 reports callback dispatch; the liveness half is bounded (accepted in the same step)."),
 "C03": ("exploration", "4/C03", PKT + " + write-once monitor on every KV diff",
         "Every MsgAcknowledgement (honest, forged ack bytes, swapped success/error, foreign proofs, replays) judged against pre-state commitment and the proving chain's real ack; every block's diff checked for ack overwrite / commitment disappearance; recorded ack hash compared with the bytes the application returned (H1).",
         "As C01; H1 supplies the bytes returned by the application."),
 "C09": ("exploration", "4/C09", "runtime monitoring: reference sequence model + KV-diff shape oracle on every send",
         "Every send (mock module, NFT, MT; succeeding and failing in 7 ways; in the packet workload and in the token workload with voucher returns, partial amounts, over-sends and relayed routes) is checked for the exact tibc diff {counter n->n+1, commitment(n)=sha256(data)}, the announced event, gap-free numbering per pair and exact lock/burn of the sent token; failing sends must leave an empty diff.",
         "Failing module-level sends are executed on a branched context as a module inside a failing transaction would be."),
 "C10": ("exploration", "4/C10", PKT + " + clean-point monotonicity monitor on every KV diff",
         "Clean requests with N from the boundary set around clean point / first unacknowledged / max acknowledged, honest and mutated receive-clean messages on relay and destination, replays below the clean point; accepted cleans are checked against range, ground truth and the exact set of keys they may delete.",
         "As C01."),
 "C13": ("fault_enumeration", "4/C13", "runtime monitoring: equality oracle between accepted relayed messages and the packet as announced by its source, under the full port/relay alteration matrix (proofs rebuilt for the altered route)",
         "For committed packets the port and relay-chain alterations (each other port, relay removed/added/replaced with the proof rebuilt from the chain the altered message is verified against) are submitted in receive and acknowledgement messages on source, relay, destination and third chains. The property is violated by design of the commitment; the four alteration classes are recorded known findings.",
         "The tree violates this property (known findings F-C13-*); the check reports any acceptance outside the recorded classes."),
 "C12": ("exploration", "4/C12", "runtime monitoring: differential oracle (field-wise reference matcher vs the real routing keeper) over generated rule sets and triples",
         "10^5-10^6 (rule list, triple) pairs over the identifier alphabet biased to regex metacharacters and to triples that a regex reading of the rule would also match; SetRoutingRules acceptance and Authenticate are compared with a reference written from the statement; also through MsgSetRoutingRules.",
         "The reference model (harness/model/routing.go) is the statement; keeper runs on a branched context of a real chain."),
 "C14": ("exploration", "4/C14", "runtime monitoring: reference status oracle on real client stores for the three client types + expired-client scenarios on real chains",
         "Status() of Tendermint/BSC/ETH clients evaluated on 10^4-10^6 (timestamp, period, block time) triples around the boundary with all sub-second classes; on real chains updates/receives/acks/receive-cleans with genuine proofs through an expired Tendermint client must be refused and through an active one accepted; MsgRecvPacket with genuine Merkle-Patricia proofs through BSC and ETH clients is accepted inside and refused past the trusting period.",
         "age == period is not judged (the statement says older than / inside)."),
 "C19": ("fault_enumeration", "4/C19", "runtime monitoring: KV-diff oracle under boundary fault injection (gas-limit sweep = abort at successive store accesses, multi-message late failure, crafted late-failing packets)",
         "Every TIBC message kind is delivered under a gas sweep (hundreds of abort points per kind), in multi-message transactions with a late failure and as crafted late-failing packets; every failed transaction must leave tibc/NFT/nft/mt untouched and every error-acknowledged receive must leave ownership/balances/supplies untouched with exactly receipt+ack written.",
         "Trusts BaseApp's branch-and-discard; the sweep granularity (gas step) bounds which store accesses become abort points."),
 "C04": ("exploration", "4/C04", "runtime monitoring: lineage ledger built from observed ownership diffs, audited against the real ownership tables of all chains after every step",
         "Every natively minted NFT is tracked as one unit (held representative / in flight / burned, chain of escrow custody); after every step of hostile histories (class ids with '/', ids spelling voucher paths, same token id everywhere, local transfers, burns, relayed routes, malformed receivers, random relay order) every real NFT must be the representative of exactly one unit, every escrow release must be of the returning unit's own token, vouchers appear only against a delivered packet.",
         "Honest relayer (alterations are C13's subject); nobody donates NFTs to the escrow account. Two recorded known findings for native classes that spell voucher paths."),
 "C05": ("exploration", "4/C05", "runtime monitoring: conservation equations evaluated with big integers on the real MT balances and supplies of all chains after every step",
         "supply = sum of balances; escrow(parent) = sum of child voucher supplies + units in flight (+ units burned by holders); user-held units over all representatives + in flight = natively minted. Amounts from the boundary set up to 2^64-1, mint-more up to and over the limit, partial sends, sends of more than owned, amount 0, direct and relayed routes, malformed receivers, random relay order.",
         "Lineage edges come from observed diffs; MT class and token ids are module-generated."),
 "C06": ("fault_enumeration", "4/C06", "runtime monitoring: snapshot-comparison oracle over an enumerated table of (asset/class kind x route shape x failure point / round trip) scripts on real chains",
         "The table {7 NFT class/id kinds + 4 MT amounts} x {28 route shapes of 1-3 hops, every hop direct or relayed} x {round trip, failure at each hop by malformed receiver, by relay-chain refusal} is run (quick: a seeded third; thorough: all, exhaustive=true): holdings before the failing send = holdings after the processed error ack, nothing on the receiving side; after the round trip the origin holds the original class/id/amount and every intermediate voucher and escrow is gone.",
         "Strings inside a class kind are representatives, not all strings. Three recorded known findings for NFT class ids containing '/'."),
 "C11": ("exploration", "4/C11", "runtime monitoring: reference routing model + hook-reported callbacks + twin-run (relayed vs direct) differential oracle",
         "Every step on the relay chain of scripted bidirectional NFT/MT/mock traffic under 8 rule sets (incl. a destination the relay chain does not know) is judged: re-commit unchanged iff whitelisted and destination known, else recorded error ack and the destination never accepts; acks (success and error) stored unchanged and accepted at every hop back; no callback (H1) and no token-store change on the relay chain; allow-all scenarios are re-run on a twin network over a direct route and the final token state of both ends compared.",
         "Honest relayer in random order; twin comparison only for scenarios in which every packet is whitelisted."),
 "C15": ("fault_enumeration", "4/C15", "runtime monitoring: access-control matrix enumerated against real chains, effect decided by KV diff",
         "{create, upgrade, register-relayer, set-rules} x 7 ways of presenting an authority (gov execution, the same payload as a legacy v1beta1 proposal content through the TIBC proposal handler, router with user/empty authority, user-signed naming itself / forging gov / relayer) x payloads (new/existing name, same/other client type, garbage Any) and update-client x {relayer of this chain, of another chain, arbitrary, replaced} in registries of 0-3 clients; refused requests must leave an empty diff, authorised ones must take the stated effect, create never overwrites (also over an expired client), upgrade never changes type; proposals rolled back by a failing last message must leave no key, no authorised relayer and no routing rule behind.",
         "The legacy handlers are called the way gov's legacy router calls them (simapp does not install that router); gov's own authority check in front of them is SDK code and is not driven."),
 "C07": ("exploration", "4/C07", "runtime monitoring: differential oracle (reference light-client rule on the generator's knowledge vs the real 07-tendermint client in a real store)",
         "Synthetic chains really signed by chosen validator subsets (incl. subsets exactly on the 1/3 and 2/3 thresholds, skewed powers, set changes) against clients with several stored states; target/trusted heights, supplied trusted sets, header and block times at / 1ns around every boundary, other chain id / revision, swapped validator sets; verdict, stored consensus state, latest height and store-unchanged-on-rejection are compared.",
         "Trust levels from {1/3, 2/5, 1/2, 2/3}; non-signers are absent votes (invalid signatures are not generated); pruning of expired states is not judged."),
 "C08": ("exploration", "4/C08", "runtime monitoring: ground-truth oracle over generated key/value stores (real IAVL store of a SimApp; Merkle-Patricia tries built with go-ethereum) for the three client types",
         "False claims (absent key, other value, value of another height or key, foreign / truncated / shuffled / swapped proofs, other contract address, altered account fields, height above latest, no consensus state, delay not elapsed) must be rejected; true claims with their genuine proof and all side conditions met (incl. delay exactly elapsed) must be accepted; true claim + damaged proof is not judged; no call may panic.",
         "ETH/BSC delay is judged in blocks only (TimeDelay 0); the MPT world builder and go-ethereum's trie are the trusted base for BSC/ETH ground truth."),
 "C17": ("fault_enumeration", "4/C17", "runtime monitoring: differential oracle (reference Parlia-light model validated on 300 recorded mainnet headers vs the real 08-bsc client), all single-field corruptions enumerated at every position",
         "Synthetic chains sealed with generated keys (sets of 1-21, epochs 8-64, a set change every epoch, in-/out-of-turn signers); at every block 27 single-field corruptions (re-sealed; incl. values at and just inside the gas bound, wrong chain id, damaged seal) are offered on a branch and must match the reference, then the valid header is applied and Header / Validators / consensus state compared.",
         "Header time is not part of the statement and not judged; where the strict reading of the recency clause and Parlia's bounded window disagree (right after the set grows) the header is not judged."),
 "C18": ("exploration", "4/C18", "runtime monitoring: differential oracle (reference header rule using go-ethereum's difficulty and EIP-1559 code + block-tree model) vs the real 09-eth client; real ethash on recorded headers, hook-skipped ethash on synthetic trees",
         "Recorded mainnet children and seal/field corruptions with the real seal check; synthetic trees with forks up to 6+ levels below the tip in random submission order, duplicates and 18 single-field perturbations; after every accepted header all consensus states up to the latest header must lie on the parent-linked branch ending there.",
         "Hook H2 skips only the ethash computation for synthetic headers; trusting period large enough that pruning does not interfere."),
 "C16": ("exploration", "4/C16", "runtime monitoring: twin-execution oracle (original chain vs a fresh chain initialised from its genesis export) over all TIBC gRPC queries and lock-step follow-up messages",
         "Chains reached by the adversarial packet workload (client updates steered onto heights whose encoding contains 0x2F; plus a BSC client fed 14 synthetic headers and an ETH client with a small header tree incl. a fork) are exported with the module manager's genesis export and re-imported; all 17 TIBC queries over every key of the original's raw dump and follow-up messages (pending relays proven at stored old heights, further BSC / ETH updates incl. a fork switch, governance, client updates that must prune, cleans, replays of every old receive, voucher send-backs) must behave identically. Three recorded known findings (no genesis field for clean points / max acked sequence, no genesis for the transfer modules' class traces).",
         "simapp's default export (all modules) cannot run for reasons unrelated to TIBC (evidence keeper without store key); the explicit module list without `evidence` is used. After the first message-level difference a twin is abandoned (later differences would be cascades)."),
 "C20": ("exploration", "4/C20", "runtime monitoring: byte-level comparison of recorded result streams of repeated executions (same process, fresh processes with perturbed environment, injected TMPDIR fault)",
         "Histories with every TIBC transaction kind incl. BSC client updates (valid/invalid synthetic headers) and ETH updates on recorded mainnet headers with the real ethash check are executed 3-7x in one process and in fresh processes with other GOMAXPROCS / TZ / LANG / junk-filled TMPDIR / missing TMPDIR, plus a wall-clock probe (a synthetic ETH header dated 20 s ahead of the real clock in a block of the same virtual time, replayed after the real clock passed it); per block, inputs (time, tx bytes) and outputs (code, codespace, log, gas, data, events, app hash) are digested and compared; differing inputs = harness nondeterminism = inconclusive.",
         "Go randomises map iteration per range statement, so order dependence shows within a few repeats; the thorough tier adds a pass under the Go race detector with concurrent gRPC readers (reports whose racing access is in tibc-go code are violations, the others are listed)."),
}
# workload / oracle extensions made after the second round of seeded changes (DESIGN.md 13.1), appended to the level text
EXTRA = {
 "C01": " Proofs are also re-arranged structurally (13 ways: elements dropped, swapped, duplicated, unset, Batch, Compressed, NonExist) with genuine and with forged fields; every fourth history uses clients with a confirmation delay.",
 "C02": " 'Cleaned' is the source chain's clean point (a hop whose clean point ran ahead is still offered the packet); every sixth history is a long pair (sequences beyond 30 with cleans at small numbers) and receives above the clean point are replayed after every receive-clean; user clean requests are also submitted on non-source chains; routing rules change by governance inside the histories with replays of old relay-hop messages.",
 "C03": " A serial scenario runs the mock application with an empty and with a nil acknowledgement; a third of the histories change routing rules frequently and replay old relay-hop receives; the honest relayer passes on the acknowledgement announced by the chain it proves from.",
 "C04": " A third of the histories run on meshes with 1-2 missing one-directional clients; non-owners try to send other people's NFTs towards every chain.",
 "C05": " A third of the histories run on meshes with 1-2 missing one-directional clients.",
 "C07": " For an eighth of the candidates a second, equally well signed block (another app hash) is offered, also for heights that are already stored.",
 "C09": " Every accepted send must have a client of its next hop (relay chain if named, else destination); the token histories run on meshes with missing one-directional clients.",
 "C10": " User clean requests are also submitted on destination / relay / bystander chains naming the real source; every sixth history is a long pair with sequences beyond 30.",
 "C11": " Governance replaces the relay chain's whitelist (also by the empty list) between the transfers of a script; packets are judged by the rules in force when they reach the relay chain.",
 "C16": " Relayers are registered ahead of their client before the export and the Relayers query is asked for every registered name.",
 "C17": " At every position the sealer of each of the last n/2+2 blocks also offers the next block (whole recent-signer window, its oldest entry, first block outside).",
 "C19": " The two monitors also run over the token workload (repeated partial MT sends of the same token, vouchers going back and forth, malformed receivers, missing clients).",
 "C20": " In the first execution every third block with transactions is also executed by an application freshly opened on a copy of the committed database (a restarted node) and compared tx result by tx result and by app hash.",
}
PENDING = {
}
ALL = ["C%02d" % i for i in range(1, 21)]
NA_REASON = "check not built yet in this phase (no not-applicable claim about the technique; see DESIGN.md section 4)"
man = {
 "version": 1,
 "setup_cmd": "./setup.sh",
 "hooks": {
  "guard": "verif",
  "enable": "go build tag: every check binary is built with `go test -tags verif` from /repo's working tree (harness/go.mod: replace github.com/bianjieai/tibc-go => /repo)",
  "baseline_off_cmd": "cd /repo && GOFLAGS=-mod=mod GOPROXY=off GOSUMDB=off go test -vet=off -count=1 -timeout 25m ./...",
  "source_commits": json.load(open(os.path.join(ROOT, "tools", "hook_commits.json"))),
  "add_only": True,
 },
 "engines": [
  {"name": "vnet+world", "path": "harness/vnet, harness/world", "serves_properties": sorted(CHECKS), "kind_free_text": "multi-chain simulator on real SimApps (deterministic keys, virtual clock), packet tracker, honest + adversarial relayer, KV-diff recorder, ground-truth store reader"},
  {"name": "monitors", "path": "harness/props, harness/mon", "serves_properties": sorted(CHECKS), "kind_free_text": "per-property oracles evaluated after every step; three-valued verdicts; known-findings matcher; evidence writer"},
 ],
 "checks": [],
 "not_applicable": [],
 "notes": "Runtime monitoring only. run.sh <id> <tier> rebuilds from /repo with -tags verif; exit 0 held / 1 VIOLATION / 3 inconclusive. known_findings.jsonl lists recorded and fixed genuine defects.",
}
for pid in ALL:
    if pid in CHECKS:
        lvl, ref, tech, text, note = CHECKS[pid]
        text += EXTRA.get(pid, "")
        man["checks"].append({
            "property_id": pid,
            "quick_cmd": "./run.sh %s quick" % pid,
            "thorough_cmd": "./run.sh %s thorough" % pid,
            "evidence_file": "/verif/evidence/%s.json" % pid,
            "replay_cmd_template": "cat {path}   # witness: seed, chains, step log up to the failing step; re-run ./run.sh %s with the recorded VERIF_SEED to reproduce" % pid,
            "engine": "vnet+world",
            "level_claimed": {"category": lvl, "text": text, "design_ref": "DESIGN.md " + ref},
            "level_note": note,
            "technique": tech,
        })
    else:
        man["not_applicable"].append({"property_id": pid, "reason": PENDING.get(pid, NA_REASON)})
json.dump(man, open(os.path.join(ROOT, "MANIFEST.json"), "w"), indent=1)
print("claimed", len(man["checks"]), "unclaimed", len(man["not_applicable"]))
