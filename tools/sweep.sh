#!/bin/bash
# sweep.sh <tier> <seed>... : runs every check at the given seeds; prints one line per (check, seed)
TIER=$1; shift
ROOT="$(cd "$(dirname "$0")/.." && pwd)"
cd "$ROOT"
for s in "$@"; do
  for id in C01 C02 C03 C04 C05 C06 C07 C08 C09 C10 C11 C12 C13 C14 C15 C16 C17 C18 C19 C20; do
    t0=$(date +%s)
    out=$(VERIF_SEED=$s ./run.sh $id $TIER 2>&1); rc=$?
    t1=$(date +%s)
    echo "seed=$s $id rc=$rc t=$((t1-t0))s $(echo "$out" | grep -c '^VIOLATION') violations; $(echo "$out" | grep '^SUMMARY' | cut -c1-160)"
    if [ $rc -ne 0 ]; then echo "$out" | grep -A1 '^VIOLATION\|^INCONCLUSIVE\|BUILD-FAILED' | head -12; fi
  done
done
