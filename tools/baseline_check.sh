#!/bin/bash
# Runs the repository suite with the verif guard OFF and compares with BASELINE.json's stable_pass list.
export GOFLAGS=-mod=mod GOPROXY=off GOSUMDB=off GOTOOLCHAIN=local
OUT=${1:-/tmp/baseline_run.json}
(cd /repo && go test -json -vet=off -count=1 -timeout 25m ./... > "$OUT" 2>/dev/null)
python3 - "$OUT" <<'PY'
import json,sys
base=set(json.load(open('/root/.vp/BASELINE.json'))['stable_pass'])
st={}
for l in open(sys.argv[1]):
    try: e=json.loads(l)
    except: continue
    if e.get('Test') and e.get('Action') in('pass','fail','skip'):
        st[e['Package']+'::'+e['Test']]=e['Action']
missing=[t for t in base if st.get(t)!='pass']
print('baseline stable tests:',len(base),'passing now:',len(base)-len(missing))
for t in missing[:20]: print('  NOT PASSING',t,st.get(t))
sys.exit(1 if missing else 0)
PY
