#!/usr/bin/env python3
"""Prints the 'as built' table of DESIGN.md section 11 from the evidence files of the last run."""
import json, os
ROOT = os.path.dirname(os.path.dirname(os.path.abspath(__file__)))
PICK = {  # counts worth naming per check
 "C01": ["recv-accepted", "recv-rejected", "recv-accepted-mutated"], "C02": ["recv-callbacks", "honest-recv-expected-accept", "replay-after-accept-rejected", "concurrent-submissions"],
 "C03": ["ack-accepted", "ack-rejected", "recorded-ack-checked", "empty-ack-deliveries-refused"], "C04": ["native-mints", "nft-sends", "nft-deliveries", "nft-refunds", "audit"],
 "C05": ["mt-sends", "mt-deliveries", "mt-refunds", "mt-escrow-equation", "mt-global-equation"], "C06": [], "C07": ["accepted", "second-block-for-stored-height", "revision-upgrades"],
 "C08": [], "C09": ["send-ok", "send-failed"], "C10": ["clean-accepted", "clean-rejected", "recvclean-accepted", "recvclean-rejected", "msgs-at-or-below-clean-point"],
 "C11": ["relay-forwarded", "relay-denied", "acks-passed-back", "whitelist-replaced", "twin-compared"], "C12": [], "C13": ["altered-port-rejected", "altered-port-accepted", "altered-relay_chain-accepted"],
 "C14": [], "C15": [], "C16": ["queries-compared", "followup-messages", "twins-built", "relayers-registered-ahead-of-client"], "C17": ["valid-accepted", "rotations-checked"],
 "C18": [], "C19": ["failed-tx", "error-acked-receives", "gas-aborts"], "C20": ["blocks-compared", "restarted-node-blocks", "fresh-process-replays"],
}
print("| check | evaluations | distinct | selected counts | histories | wall |")
print("|-------|-------------|----------|-----------------|-----------|------|")
for i in range(1, 21):
    pid = "C%02d" % i
    d = json.load(open(os.path.join(ROOT, "evidence", pid + ".json")))
    c = d["coverage"]
    cnt = c.get("counts", {})
    sel = ", ".join("%s %s" % (k, cnt[k]) for k in PICK.get(pid, []) if k in cnt)
    print("| %s | %s | %s | %s | %s | %.0f s |" % (pid, c.get("evaluations"), c.get("distinct_nontrivial"), sel, c.get("histories", ""), d.get("wall_s", 0)))
