#!/usr/bin/env python3
import json, jsonschema, glob, sys
jsonschema.validate(json.load(open('/verif/MANIFEST.json')), json.load(open('/root/.vp/MANIFEST.schema.json')))
print("manifest ok")
for f in sorted(glob.glob('/verif/evidence/*.json')):
    jsonschema.validate(json.load(open(f)), json.load(open('/root/.vp/EVIDENCE.schema.json'))); print('ok', f)
