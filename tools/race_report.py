#!/usr/bin/env python3
"""Classifies Go race-detector logs: counts reports, deduplicates by the pair of outermost tibc-go / harness frames,
and separates reports that involve tibc-go module code from those confined to dependencies or the harness itself."""
import sys, re, json, glob
files = []
for a in sys.argv[2:]:
    files += glob.glob(a + "*")
reports = []
for f in files:
    txt = open(f, errors="replace").read()
    for blk in txt.split("WARNING: DATA RACE")[1:]:
        blk = blk.split("==================")[0]
        frames = re.findall(r"^\s+([\w./\-*()\[\]]+)\(\)\n\s+(\S+?):(\d+)", blk, re.M)
        reports.append(frames)
def is_tibc(fr):  return "bianjieai/tibc-go/modules" in fr[0] or "/repo/modules" in fr[1]
def is_harness(fr): return fr[0].startswith("verif/") or "/verif/harness" in fr[1]
seen = {}
for fr in reports:
    tibc = [x for x in fr if is_tibc(x)]
    key = tuple(sorted(set(x[0] for x in tibc))) if tibc else tuple(sorted(set(x[0] for x in fr[:2])))
    d = seen.setdefault(key, {"count": 0, "tibc": bool(tibc), "harness_only": (not tibc) and any(is_harness(x) for x in fr), "frames": [f"{x[0]} {x[1]}:{x[2]}" for x in (tibc or fr)[:6]]})
    d["count"] += 1
out = {"reports": len(reports), "distinct": len(seen), "tibc_reports": sum(v["count"] for v in seen.values() if v["tibc"]),
       "distinct_tibc": [v for v in seen.values() if v["tibc"]], "others": [v for v in seen.values() if not v["tibc"]][:10]}
json.dump(out, open(sys.argv[1], "w"), indent=1)
print("race reports:", out["reports"], "distinct:", out["distinct"], "involving tibc-go code:", out["tibc_reports"])
