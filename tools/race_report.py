#!/usr/bin/env python3
"""Classifies Go race-detector logs. A report implicates tibc-go only when the racing memory access itself (the top frame
of the read or the write stack) is in tibc-go module code; reports whose accesses are inside dependencies (SDK store, IAVL,
memdb) or the harness are listed separately (the harness queries committed state concurrently with Commit, which those
layers do not synchronise). Reports are deduplicated by the pair of access sites."""
import sys, re, json, glob
files = []
for a in sys.argv[2:]:
    files += glob.glob(a + "*")
reports = []
for f in files:
    txt = open(f, errors="replace").read()
    for blk in txt.split("WARNING: DATA RACE")[1:]:
        blk = blk.split("==================")[0]
        tops = []
        for m in re.finditer(r"^(?:Previous )?(?:[Rr]ead|[Ww]rite|atomic \w+) at \S+ by [^\n]*\n\s+(\S+)\(\)\n\s+(\S+?):(\d+)", blk, re.M):
            tops.append((m.group(1), m.group(2), m.group(3)))
        reports.append(tops)
def is_tibc(fr):  return "bianjieai/tibc-go/modules" in fr[0] or fr[1].startswith("/repo/modules")
def is_harness(fr): return fr[0].startswith("verif/") or "/verif/harness" in fr[1]
seen = {}
for tops in reports:
    key = tuple(sorted(f"{t[0]} {t[1]}:{t[2]}" for t in tops))
    d = seen.setdefault(key, {"count": 0, "tibc": any(is_tibc(t) for t in tops), "harness": any(is_harness(t) for t in tops), "access_sites": list(key)})
    d["count"] += 1
out = {"reports": len(reports), "distinct": len(seen), "tibc_reports": sum(v["count"] for v in seen.values() if v["tibc"]),
       "distinct_tibc": [{"count": v["count"], "frames": v["access_sites"]} for v in seen.values() if v["tibc"]],
       "others": [{"count": v["count"], "access_sites": v["access_sites"]} for v in sorted(seen.values(), key=lambda v: -v["count"]) if not v["tibc"]][:12]}
json.dump(out, open(sys.argv[1], "w"), indent=1)
print("race reports:", out["reports"], "distinct access-site pairs:", out["distinct"], "with an access in tibc-go code:", out["tibc_reports"])
