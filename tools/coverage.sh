#!/bin/bash
# coverage.sh [ids...] : statement coverage of /repo's modules/tibc packages reached by the quick tier of the given checks
# (default all). Writes bin/cover.<id>.out, bin/cover.all.out and prints functions of non-test, non-generated files with 0% coverage.
ROOT="$(cd "$(dirname "$0")/.." && pwd)"
export GOFLAGS=-mod=mod GOPROXY=off GOSUMDB=off GOTOOLCHAIN=local VERIF_TIER=quick VERIF_ROOT="$ROOT/bin/covroot" VERIF_SEED="${VERIF_SEED:-1}"
mkdir -p "$VERIF_ROOT/evidence" "$VERIF_ROOT/replays"; cp "$ROOT/known_findings.jsonl" "$VERIF_ROOT/"
cd "$ROOT/harness" || exit 3
IDS="${@:-C01 C02 C03 C04 C05 C06 C07 C08 C09 C10 C11 C12 C13 C14 C15 C16 C17 C18 C19 C20}"
go test -tags verif -c -cover -coverpkg=github.com/bianjieai/tibc-go/modules/tibc/... -o "$ROOT/bin/checks.cover.test" ./checks/ || exit 3
for id in $IDS; do
  "$ROOT/bin/checks.cover.test" -test.run "^Test${id}\$" -test.timeout 0 -test.coverprofile "$ROOT/bin/cover.$id.out" > "$ROOT/bin/cover.$id.log" 2>&1
  echo "$id rc=$? $(tail -1 "$ROOT/bin/cover.$id.log")"
done
rm -f "$ROOT/bin/checks.cover.test"
