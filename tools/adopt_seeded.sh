#!/bin/bash
# adopt_seeded.sh <Cxx> <k> [base dir of the sub-agents' worktrees] [number to store it under]
# confirms a sub-agent's seeded change in its scratch worktree (incl. the repository suite) and copies it to
# /verif/seeded/<Cxx>-<n>/ together with the confirmation line.
P=$1; K=$2; BASE=${3:-/tmp/seed}; N=${4:-$K}
S=$BASE/$P/_seeded/$K
D=/verif/seeded/$P-$N
mkdir -p "$D"
cp "$S/patch.diff" "$S/demo_test.go" "$D/"
[ -f "$S/notes.md" ] && cp "$S/notes.md" "$D/notes.md"
/verif/tools/confirm_seeded.sh "$S" $BASE/$P suite | sed "s#$S#$P-$N#" > "$D/confirm.txt"
cat "$D/confirm.txt"
