#!/bin/bash
# adopt_seeded.sh <Cxx> <k> : confirms a sub-agent's seeded change in its scratch worktree (incl. the repository suite)
# and copies it to /verif/seeded/<Cxx>-<k>/ together with the confirmation line.
P=$1; K=$2
S=/tmp/seed/$P/_seeded/$K
D=/verif/seeded/$P-$K
mkdir -p "$D"
cp "$S/patch.diff" "$S/demo_test.go" "$D/" 
[ -f "$S/notes.md" ] && cp "$S/notes.md" "$D/notes.md"
/verif/tools/confirm_seeded.sh "$S" /tmp/seed/$P suite | sed "s#/tmp/seed/$P/_seeded/$K#$P-$K#" > "$D/confirm.txt"
cat "$D/confirm.txt"
