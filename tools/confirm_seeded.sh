#!/bin/bash
# confirm_seeded.sh <seed-dir with patch.diff + demo_test.go> <scratch worktree> [suite]
# Confirms in a scratch worktree (never /repo): patch applies and builds, the demonstration passes without and fails with
# the change, and (if "suite" is given) the repository suite still passes with the change. Prints one summary line.
S="$1"; W="$2"; SUITE="${3:-}"
export GOFLAGS=-mod=mod GOPROXY=off GOSUMDB=off GOTOOLCHAIN=local
cd "$W" || exit 2
git checkout -q -- . ; git clean -fdq -- modules simapp
DIR=$(head -1 "$S/demo_test.go" | grep -o 'modules/[A-Za-z0-9_/.-]*' | head -1); DIR=${DIR%/}
[ -d "$DIR" ] || { echo "$S: cannot find demo directory ($DIR)"; exit 2; }
cp "$S/demo_test.go" "$DIR/zz_seeded_demo_test.go"
TESTS=$(grep -o '^func \(Test[A-Za-z0-9_]*\)' "$DIR/zz_seeded_demo_test.go" | sed 's/func //' | tr '\n' '|' | sed 's/|$//')
SUITEFN=$(grep -o 'func (suite \*\?[A-Za-z]*) \(Test[A-Za-z0-9_]*\)' "$DIR/zz_seeded_demo_test.go" | awk '{print $4}' | tr '\n' '|' | sed 's/|$//')
RUNARG="-run ^($TESTS)\$"
if [ -z "$TESTS" ] && [ -z "$SUITEFN" ]; then echo "$S: no test function found in the demonstration"; rm -f "$DIR/zz_seeded_demo_test.go"; exit 2; fi
if [ -z "$TESTS" ] && [ -n "$SUITEFN" ]; then RUNARG="-run . -testify.m ^($SUITEFN)\$"; fi
go test -tags verif -count=1 "./$DIR/" $RUNARG > /tmp/confirm_clean.$$ 2>&1; c1=$?
git apply "$S/patch.diff" || { echo "$S: patch does not apply"; rm -f "$DIR/zz_seeded_demo_test.go"; exit 2; }
go build ./... > /tmp/confirm_build.$$ 2>&1; cb=$?
go test -tags verif -count=1 "./$DIR/" $RUNARG > /tmp/confirm_mut.$$ 2>&1; c2=$?
rm -f "$DIR/zz_seeded_demo_test.go"
cs="skipped"
if [ -n "$SUITE" ]; then
  go test -count=1 ./modules/... 2>&1 | grep -v "no test files" | grep -v "^ok" | grep -v "04-packet/simulation\|TestDecodeStore\|^FAIL$\|^---\|^panic\|^\s\|^goroutine\|^testing\|^created by\|^$\|^exit status" > /tmp/confirm_suite.$$
  if [ -s /tmp/confirm_suite.$$ ]; then cs="FAILS: $(head -3 /tmp/confirm_suite.$$ | tr '\n' ' ')"; else cs="passes"; fi
fi
git checkout -q -- . ; git clean -fdq -- modules simapp
echo "$S: demo-without-change=$([ $c1 -eq 0 ] && echo pass || echo FAIL) build-with-change=$([ $cb -eq 0 ] && echo ok || echo FAIL) demo-with-change=$([ $c2 -ne 0 ] && echo fails-as-expected || echo STILL-PASSES) suite-with-change=$cs"
rm -f /tmp/confirm_*.$$
