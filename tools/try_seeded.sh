#!/bin/bash
# try_seeded.sh <patch.diff> <check-id>... : applies a seeded change to /repo, runs the given checks (quick tier unless
# VERIF_TIER is set), prints one line per check, and restores /repo. Never leaves /repo modified.
P="$1"; shift
cd /repo || exit 2
if [ -n "$(git status --porcelain)" ]; then echo "/repo is not clean"; exit 2; fi
git apply --check "$P" || { echo "patch does not apply"; exit 2; }
git apply "$P"
trap 'git -C /repo checkout -- . ; git -C /repo clean -fdq -- modules simapp >/dev/null 2>&1' EXIT
export GOFLAGS=-mod=mod GOPROXY=off GOSUMDB=off GOTOOLCHAIN=local
if ! go build ./... 2>/tmp/try_seeded_build.log; then echo "BUILD FAILS with patch"; tail -5 /tmp/try_seeded_build.log; exit 2; fi
cd /verif
for id in "$@"; do
  out=$(./run.sh "$id" "${VERIF_TIER:-quick}" 2>&1); rc=$?
  echo "$id rc=$rc violations=$(echo "$out" | grep -c '^VIOLATION') :: $(echo "$out" | grep -A1 '^VIOLATION' | grep kind= | sed 's/^ *//' | cut -c1-220 | sort | uniq -c | sort -rn | head -3 | tr '\n' ';')"
done
