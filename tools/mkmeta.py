#!/usr/bin/env python3
"""Writes /verif/seeded/<id>/meta.json from the table below + the confirmation line produced by adopt_seeded.sh."""
import json, os, re
ROOT = "/verif/seeded"
T = {
 "C01-1": dict(property="C01", change="RecvPacket: the relay chain's whitelist check moved before proof verification (fail-fast reorder)",
   needs="a receive that names this chain as relay chain on a route its rules do not whitelist, with a forged / unproven packet: msgServer turns ErrUnauthorized into 'write error ack and succeed', so the unproven packet gets a receipt and an ack",
   caught=[("C01","recv-accepted-without-commitment"),("C11","denied-packet-not-answered-with-error-ack")], missed=[], strengthening=""),
 "C01-2": dict(property="C01", change="Tendermint VerifyPacketCommitment returns right after the delay check when the client has TimeDelay > 0 (membership proof never evaluated)",
   needs="a light client configured with a non-zero confirmation delay, the delay elapsed, and a forged message",
   caught=[("C08","false-claim-verified"),("C01","recv-accepted-without-commitment")], missed=["C01 (before strengthening)"], strengthening="C01's workload now runs every fourth history with clients that have a 17 s confirmation delay (the honest relayer waits it out)"),
 "C02-1": dict(property="C02", change="ValidatePacket: sequence <= cleanPoint became <",
   needs="deliver, ack, clean on source, receive-clean on destination, then replay exactly the packet whose sequence equals the clean point with its old proof",
   caught=[("C10","cleaned-sequence-accepted"),("C02","recv-accepted-twice / recv-callback-twice")], missed=["C02 (before strengthening)"], strengthening="after every accepted receive-clean the adversarial relayer replays (old proof) the receives that chain had accepted for the pair, the one at the clean point first; half of C02's histories are clean-heavy"),
 "C02-2": dict(property="C02", change="RecvCleanPacket stores the clean point under (fromChain, dst) instead of (src, dst)",
   needs="a route through a relay chain: on the destination fromChain is the relay chain, so receipts are deleted but the clean point of the real pair stays 0 and cleaned packets can be replayed",
   caught=[("C10","clean-removed-or-wrote-something-else / clean-point-not-recorded"),("C02","recv-accepted-twice")], missed=["C02 (before strengthening)"], strengthening="same as C02-1"),
 "C03-1": dict(property="C03", change="AcknowledgePacket deletes the commitment under (src, fromChain, seq) instead of (src, dst, seq)",
   needs="the source chain of a packet routed through a relay chain (fromChain = relay): the commitment survives and the ack can be replayed, running the refund again",
   caught=[("C03","commitment-survives-ack"),("C11","ack-cannot-pass-back")], missed=[], strengthening=""),
 "C03-2": dict(property="C03", change="RecvPacket relay branch: SetPacketCommitment moved above the whitelist / destination-client checks",
   needs="a relay hop whose route is refused: ErrUnauthorized is converted into 'error ack + success', so the stray commitment persists, the packet can still be delivered and the destination's ack overwrites the relay chain's error ack",
   caught=[("C03","ack-overwritten"),("C11","denied-packet-forwarded")], missed=[], strengthening=""),
 "C04-1": dict(property="C04", change="voucher class issued with the first receiver as creator instead of the module account",
   needs="the first receiver of a class on a chain mints directly (MsgMintNFT) into the mint-restricted voucher class and sends the forged voucher back, releasing an escrowed NFT whose genuine voucher is elsewhere",
   caught=[("C04","voucher-minted-without-delivered-packet")], missed=["C04 (before strengthening)"], strengthening="the token workload now lets users try to mint straight into voucher classes (NFT) and voucher denoms (MT); the ledger reports any token that appears in a voucher class without a delivered packet"),
 "C04-2": dict(property="C04", change="SendNftTransfer decides lock-vs-burn against the next hop (relay chain) instead of the destination",
   needs="a voucher forwarded through a relay chain that is its previous hop, plus an unrelated native NFT with the same class name and id in the destination's escrow",
   caught=[("C04","escrow-released-to-wrong-claimant"),("C06","transfer-not-delivered")], missed=[], strengthening=""),
 "C05-1": dict(property="C05", change="MT refundPacketToken chooses unlock-vs-mint by 'class has no path' instead of AwayFromOrigin",
   needs="three chains: A->B succeeds, the voucher is forwarded B->C (locked on B) and that hop is error-acked: B mints new units and never releases the escrow",
   caught=[("C05","mt-escrow-differs-from-vouchers-plus-in-flight"),("C06","refund-not-exact")], missed=[], strengthening=""),
 "C05-2": dict(property="C05", change="MT OnRecvPacket parses the receiver after minting into the module account (dedup refactor)",
   needs="an away-from-origin packet whose receiver is not valid bech32: the error ack is committed together with the minted units",
   caught=[("C05","mt-units-moved-without-delivered-packet"),("C19","error-ack-changed-mt-state")], missed=[], strengthening=""),
}
for sid, t in T.items():
    d = os.path.join(ROOT, sid)
    if not os.path.isdir(d):
        continue
    conf = open(os.path.join(d, "confirm.txt")).read().strip() if os.path.exists(os.path.join(d, "confirm.txt")) else ""
    meta = {
        "id": sid, "breaks_property": t["property"], "origin": "independent sub-agent given only the property text and its own scratch worktree of /repo",
        "change": t["change"], "needs_to_manifest": t["needs"],
        "confirmed_in_scratch_worktree": conf,
        "what_was_run": ["tools/confirm_seeded.sh <dir> <scratch worktree> suite  (demo without / with the change, go build, go test ./modules/... with the change)",
                         "tools/try_seeded.sh seeded/%s/patch.diff <checks>  (git -C /repo apply, ./run.sh <id> quick, git -C /repo checkout -- .)" % sid],
        "caught_by": [{"check": c, "tier": "quick", "violation_kind": k} for c, k in t["caught"]],
        "initially_missed_by": t["missed"], "strengthening": t["strengthening"],
    }
    json.dump(meta, open(os.path.join(d, "meta.json"), "w"), indent=1)
    print("meta", sid, "confirmed:", bool(conf))
