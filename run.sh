#!/bin/bash
# run.sh <property-id> [quick|thorough]
# Rebuilds the check binary from /repo's current working tree (build tag `verif`),
# runs the property's check, which writes evidence/<id>.json.
# exit 0 = held on everything observed, 1 = VIOLATION printed, 3 = inconclusive.
set -u
ID="$1"; TIER="${2:-${VERIF_TIER:-quick}}"
ROOT="$(cd "$(dirname "$0")" && pwd)"
export GOFLAGS=-mod=mod GOPROXY=off GOSUMDB=off GOTOOLCHAIN=local
export VERIF_TIER="$TIER" VERIF_ROOT="$ROOT" VERIF_SEED="${VERIF_SEED:-1}"
cd "$ROOT/harness" || exit 3
# go.sum = the repository's own sums + the harness-only modules
cat /repo/go.sum go.sum.extra 2>/dev/null | sort -u > "go.sum.tmp.$$"
cmp -s "go.sum.tmp.$$" go.sum && rm -f "go.sum.tmp.$$" || mv -f "go.sum.tmp.$$" go.sum
mkdir -p "$ROOT/bin" "$ROOT/evidence" "$ROOT/replays"
BIN="$ROOT/bin/checks.$ID.$$.test"
trap 'rm -f "$BIN"' EXIT
if ! go test -tags verif -c -o "$BIN" ./checks/ > "$ROOT/bin/build.$ID.log" 2>&1; then
  echo "BUILD-FAILED property=$ID (see below)"; tail -40 "$ROOT/bin/build.$ID.log"
  exit 3
fi
LIMIT=1500; [ "$TIER" = thorough ] && LIMIT=7200
# thorough tier of the checks that have goroutines: an extra pass of a dedicated workload under the Go race detector
case "$TIER:$ID" in thorough:C02|thorough:C18|thorough:C20)
  RBIN="$ROOT/bin/checks.race.$ID.$$.test"; RLOG="$ROOT/bin/race.$ID.$$.log"
  trap 'rm -f "$BIN" "$RBIN" "$RLOG".*' EXIT
  if go test -race -tags verif -c -o "$RBIN" ./checks/ > "$ROOT/bin/build.race.$ID.log" 2>&1; then
    GORACE="halt_on_error=0 log_path=$RLOG" VERIF_RACE_PASS=1 timeout -s QUIT 3000 "$RBIN" -test.run "^Test${ID}Race\$" -test.timeout 0 > "$ROOT/bin/race.$ID.out" 2>&1
    grep -h "^RACE-PASS\|^VIOLATION" "$ROOT/bin/race.$ID.out"
    python3 "$ROOT/tools/race_report.py" "$ROOT/bin/race.$ID.json" "$RLOG"
    export VERIF_RACE_SUMMARY="$ROOT/bin/race.$ID.json"
  else
    echo "race build failed (see bin/build.race.$ID.log): race pass skipped"
  fi ;;
esac
timeout -s QUIT "$LIMIT" "$BIN" -test.run "^Test${ID}\$" -test.timeout 0
rc=$?
if [ $rc -eq 124 ] || [ $rc -eq 131 ]; then echo "INCONCLUSIVE property=$ID reason=watchdog"; exit 3; fi
exit $rc
