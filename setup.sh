#!/bin/bash
# Builds the harness once (warms the Go build cache); offline.
set -eu
ROOT="$(cd "$(dirname "$0")" && pwd)"
export GOFLAGS=-mod=mod GOPROXY=off GOSUMDB=off GOTOOLCHAIN=local
cd "$ROOT/harness"
cat /repo/go.sum go.sum.extra 2>/dev/null | sort -u > "go.sum.tmp.$$"
cmp -s "go.sum.tmp.$$" go.sum && rm -f "go.sum.tmp.$$" || mv -f "go.sum.tmp.$$" go.sum
mkdir -p "$ROOT/bin" "$ROOT/evidence" "$ROOT/replays"
go test -tags verif -c -o "$ROOT/bin/checks.setup.test" ./checks/
rm -f "$ROOT/bin/checks.setup.test"
echo setup-ok
